"""Self-tests that gate trust in the machinery (DESIGN.md section 9)."""
from __future__ import annotations
import os
import subprocess
import sys

VERIF = os.path.dirname(os.path.dirname(os.path.abspath(__file__)))


def setup():
    # nothing to build: the harness is stdlib-only and imports smoothmath from /repo/src at run time
    from . import lib  # noqa: F401  (import check)
    print("setup ok: harness is stdlib-only; smoothmath imported from", lib.SRC)
    return 0


def main(argv):
    if not argv or argv[0] == "--setup":
        return setup()
    if argv[0] == "--determinism":
        from . import st_determinism
        return st_determinism.main(argv[1:])
    if argv[0] == "--digests":
        from . import st_determinism
        return st_determinism.child(argv[1:])
    if argv[0] == "--refactors":
        from . import st_refactors
        return st_refactors.main(argv[1:])
    if argv[0] == "--mutants":
        from . import st_mutants
        return st_mutants.main(argv[1:])
    print("usage: selftest [--setup|--determinism|--mutants|--refactors]")
    return 2
