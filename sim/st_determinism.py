"""Determinism self-test: one integer decides everything.
For every opsim property the per-run event-log digests of the same VERIF_SEED / run indices must be
identical (a) when executed twice, (b) in fresh interpreters under different PYTHONHASHSEEDs,
(c) with 1 worker and with 16 workers (aggregate comparison)."""
from __future__ import annotations
import json
import os
import random
import subprocess
import sys

from . import engine, runner

VERIF = runner.VERIF


def digests(prop, seed, start, stop):
    from .plans import PLANS
    plan = PLANS[prop]
    if getattr(plan, "uses_pristine", False):
        from . import pristine
        pristine.init_zygote()
    out = []
    for idx in range(start, stop):
        rng = random.Random(runner.mix(seed, prop, idx))
        scn = plan.gen(rng, "quick", idx)
        if scn.get("giveup"):
            out.append("skipped-heavy")
            continue
        run, viol = runner.execute(plan, scn)
        out.append(engine.log_digest(run.log) + ("!" if viol else ""))
    return out


def child(argv):
    prop, seed, start, stop = argv[0], int(argv[1]), int(argv[2]), int(argv[3])
    print(json.dumps(digests(prop, seed, start, stop)))
    return 0


def spawn(prop, seed, start, stop, hashseed):
    env = dict(os.environ, PYTHONHASHSEED=str(hashseed), PYTHONDONTWRITEBYTECODE="1")
    cmd = [sys.executable, os.path.join(VERIF, "selftest"), "--digests", prop, str(seed), str(start), str(stop)]
    return subprocess.Popen(cmd, env=env, stdout=subprocess.PIPE, stderr=subprocess.PIPE, text=True)


def main(argv):
    n = int(argv[0]) if argv else 400
    seed = int(os.environ.get("VERIF_SEED") or 0)
    ok = True
    for prop in ("C09", "C10", "C06"):
        slices = [(s, min(n, s + 50)) for s in range(0, n, 50)]
        results = {}
        for hs in (0, 0, 1, 4242, 99991):
            procs = [(sl, spawn(prop, seed, sl[0], sl[1], hs)) for sl in slices]
            got = []
            for sl, p in procs:
                so, se = p.communicate(timeout=900)
                if p.returncode != 0:
                    print(f"child failed: {se[-1000:]}")
                    return 2
                got.extend(json.loads(so.strip().splitlines()[-1]))
            results.setdefault(hs, []).append(got)
        ref = results[0][0]
        bad = 0
        for hs, lists in results.items():
            for got in lists:
                for i, (a, b) in enumerate(zip(ref, got)):
                    if a != b:
                        bad += 1
                        if bad <= 3:
                            print(f"  NONDETERMINISM {prop} run {i}: hashseed 0 {a[:16]} vs hashseed {hs} {b[:16]}")
        print(f"{prop}: {n} seeds x 5 fresh interpreters (PYTHONHASHSEED 0,0,1,4242,99991): "
              f"{'identical' if bad == 0 else f'{bad} DIFFERENCES'}")
        ok &= bad == 0
        from .plans import PLANS
        a1 = runner.run_batch(PLANS[prop], "quick", seed, n_runs=1500, workers=1)
        a16 = runner.run_batch(PLANS[prop], "quick", seed, n_runs=1500, workers=16)
        same = (a1["digests"] == a16["digests"] and a1["stats"] == a16["stats"] and a1["sigs"] == a16["sigs"])
        print(f"{prop}: 1 worker vs 16 workers over 1500 runs: {'identical aggregates' if same else 'DIFFERENT'}")
        ok &= same
    print("determinism self-test", "PASSED" if ok else "FAILED")
    return 0 if ok else 1
