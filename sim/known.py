"""Reader for /verif/KNOWN_FINDINGS.txt (committed; never written at run time)."""
from __future__ import annotations
import os
import re

PATH = os.path.join(os.path.dirname(os.path.dirname(os.path.abspath(__file__))), "KNOWN_FINDINGS.txt")


def load():
    out = {"finding": [], "fixed": []}
    try:
        with open(PATH) as f:
            for line in f:
                line = line.strip()
                if not line or line.startswith("#"):
                    continue
                m = re.match(r"(finding|fixed):\s+property=(\S+)\s+(.*)", line)
                if m:
                    kind, prop, rest = m.groups()
                    idm = re.search(r"\bid=(\S+)", rest)
                    out[kind].append({"property": prop, "id": idm.group(1) if idm else None, "text": rest})
    except FileNotFoundError:
        pass
    return out


def listed(known, prop, fid):
    return any(e["property"] == prop and e["id"] == fid for e in known["finding"])
