"""hashsim (C18): the same seeded battery is executed in FRESH INTERPRETERS under different
PYTHONHASHSEEDs, with the coordinates of every Point spelled in a permuted keyword order and the
world's objects brought into existence in a permuted (topological) order with junk allocations in
between; the per-run digests of the result logs must be identical across all configurations.

The one source of nondeterminism this library has (set iteration order / dict insertion order /
object addresses) is what the simulator owns here.
"""
from __future__ import annotations
import copy
import json
import os
import random
import subprocess
import sys
import time

from . import engine, gen, runner, known as known_mod

VERIF = runner.VERIF
PROP = "C18"

BASE = {
    "n_ord": (3, 8), "n_trip": [0, 1, 1, 2], "n_miss": [0, 0, 1], "n_nodes": (8, 36),
    "group_prob": [0.1, 0.25, 0.4], "dup_prob": [0.2, 0.4, 0.6], "mirror_prob": [0.2, 0.4, 0.6], "sweep_prob": [0.4, 0.7], "perm_points_prob": [0.3, 0.6],
    "poly_prob": [0.05, 0.15], "n_steps": (8, 28), "kind_off_prob": 0.1,
    "early_prob": [0.5, 0.8],
    "weights": {
        "at": 4, "at_num": 0.5, "mk_partial": 3, "mk_derivative": 0.5, "mk_differential": 5,
        "mk_located": 5, "pat": 3, "dat": 5, "comp": 4, "compat": 3, "lcomp": 5, "asx": 5,
        "build": 2, "norm": 5, "eq": 1, "hash": 0.5, "repr": 1, "peq": 1.5,
    },
}

RULE = ("battery = opsim runs biased to order-sensitive code (3-8 variable names of different lengths, reverse mode "
        "over many variables, early Differential, group-by-key consolidation of logarithms / powers / roots / "
        "exponentials, flattening, as_expression on all routes); every run is executed in each configuration = fresh "
        "interpreter with its own PYTHONHASHSEED x keyword order of every Point permuted x object creation order "
        "permuted with junk allocations; digest of the result log (float.hex of every number, exception class, "
        "structural spec and repr of every returned expression, ==/hash agreement) must be identical in all "
        "configurations.  A run is non-trivial when it evaluated or differentiated an expression with >= 2 variables "
        "through reverse mode, an early Differential or simplification; distinct = distinct digest.  Every 50th run is a "
        "many-variable world (6-11 ordinary names, n-ary nodes with up to 12 operands)")

ASSUMPTIONS = [
    "PYTHONHASHSEED controls str hashing and therefore set[str] iteration order in CPython 3.12",
    "reprs of Point / LocatedDifferential echo the caller's keyword spelling and are excluded under keyword permutation; point equality and hash agreement are included",
    "exception messages are excluded from the digest (class only)",
]

PROBE_NAMES = ["x", "y", "z", "w", "alpha", "b2", "theta_long_name", "k", "t1", "t2"]


def variant_of(scn, variant, vseed):
    """Same scenario, different spelling: coordinate keyword order and object creation order."""
    if not variant:
        return scn
    rng = random.Random(vseed)
    out = copy.deepcopy(scn)
    if variant.get("kw"):
        for coords in out["points"]:
            rng.shuffle(coords)
    if variant.get("fresh"):
        # every variable name reaches the library as a freshly built str object
        out["fresh_names"] = True
        for st in out["steps"]:
            if "v" in st:
                st["vfresh"] = True
    elif variant.get("interned"):
        out.pop("fresh_names", None)
        for st in out["steps"]:
            st.pop("vfresh", None)
    if variant.get("creation"):
        nodes = out["nodes"]
        n = len(nodes)
        remaining = list(range(n))
        done = set()
        order = []
        if variant["creation"] == "leaves":
            leaves = [i for i in remaining if not nodes[i].get("kids")]
            rng.shuffle(leaves)
            order = leaves + [i for i in remaining if nodes[i].get("kids")]
        else:
            while remaining:
                ready = [i for i in remaining if all(k in done for k in nodes[i].get("kids", ()))]
                pick = rng.choice(ready)
                order.append(pick)
                done.add(pick)
                remaining.remove(pick)
        out["creation_order"] = order
        out["junk"] = [rng.randrange(0, 40) for _ in range(7)]
    return out


def nontrivial(run):
    multi = False
    for st, out in run.records:
        if out[0] == "skip":
            continue
        k = st["k"]
        if k in ("dat", "norm", "asx", "lcomp", "compat") or (k == "mk" and (st.get("early") or st["cls"] == "LocatedDifferential")):
            multi = True
            break
    if not multi:
        return False
    names = [n["name"] for n in run.scn["nodes"] if n["op"] == "Variable"]
    return len(set(names)) >= 2


# many variables (the name set grows through several table sizes), wide n-ary nodes, deeper nesting
BIG = dict(BASE, arity=[3, 5, 8, 8, 12], n_ord=(6, 11), n_nodes=(30, 60), max_depth=(4, 9), n_trip=[1, 2, 3])


def gen_run(rng, idx):
    if idx % 50 == 31:
        return gen.gen_scenario(rng, BIG)
    if idx % 250 == 113:
        return gen.gen_budget(rng)       # medium-size two-variable input, several hundred rewrite steps per partial
    return gen.gen_scenario(rng, BASE)


def run_one(seed, idx, variant):
    rng = random.Random(runner.mix(seed, PROP, idx))
    scn = gen_run(rng, idx)
    scn_v = variant_of(scn, variant, runner.mix(seed, "C18v", idx) ^ variant.get("id", 0))
    run = engine.Run(scn_v, oracles=(), reach=False).execute()
    return scn, run


# ------------------------------------------------------------------ child side

def child_main(cfg):
    """Runs in a fresh interpreter whose PYTHONHASHSEED was chosen by the parent."""
    out = {"hashseed": os.environ.get("PYTHONHASHSEED"), "set_order": list(set(PROBE_NAMES)),
           "digests": [], "nontrivial": [], "ops": 0, "failed": 0}
    if cfg.get("disable_f3"):
        from . import counterfactual
        counterfactual.disable_even_root_of_even_power()
    if "scenario" in cfg:            # replay / shrink mode: one explicit scenario
        scn_v = variant_of(cfg["scenario"], cfg["variant"], cfg.get("vseed", 0))
        run = engine.Run(scn_v, oracles=(), reach=False).execute()
        out["digests"].append(engine.log_digest(run.log))
        out["log"] = run.log
        out["details"] = [_detail(o) for _, o in run.records]
        print(json.dumps(out))
        return 0
    indices = list(range(cfg["start"], cfg["stop"]))
    if cfg["variant"].get("order") == "reverse":
        # the same runs, executed in the opposite order: what this interpreter did BEFORE a run differs
        # from the other configurations (any dependence on process history shows as a digest mismatch)
        indices.reverse()
    digests, nontriv = {}, {}
    for idx in indices:
        scn, run = run_one(cfg["seed"], idx, cfg["variant"])
        digests[idx] = engine.log_digest(run.log)[:24]
        nontriv[idx] = 1 if nontrivial(run) else 0
        out["ops"] += run.stats["ops"]
        out["failed"] += run.stats["failed_ops"]
        if idx in cfg.get("dump", ()):
            out.setdefault("logs", {})[str(idx)] = run.log
    for idx in range(cfg["start"], cfg["stop"]):
        out["digests"].append(digests[idx])
        out["nontrivial"].append(nontriv[idx])
    print(json.dumps(out))
    return 0


def _detail(o):
    if o[0] == "obj" and o[1] == "E" and len(o[2]) >= 2:
        return str(o[2][1])[:400]
    return repr(o)[:400]


def spawn(cfg, hashseed):
    env = dict(os.environ, PYTHONHASHSEED=str(hashseed), VERIF_NO_REEXEC="1", PYTHONDONTWRITEBYTECODE="1")
    cmd = [sys.executable, os.path.join(VERIF, "check"), PROP, "--child", json.dumps(cfg)]
    return subprocess.Popen(cmd, env=env, stdout=subprocess.PIPE, stderr=subprocess.PIPE, text=True)


def collect(proc, timeout):
    try:
        so, se = proc.communicate(timeout=timeout)
    except subprocess.TimeoutExpired:
        proc.kill()
        raise engine.HarnessError("hashsim child timed out")
    if proc.returncode != 0:
        raise engine.HarnessError(f"hashsim child failed rc={proc.returncode}: {se[-2000:]}")
    return json.loads(so.strip().splitlines()[-1])


def run_pair(scn, cfg_a, cfg_b, disable_f3=False):
    """Two fresh interpreters on one explicit scenario; returns (digest_a, digest_b, log_a, log_b)."""
    procs = []
    for c in (cfg_a, cfg_b):
        cfg = {"scenario": scn, "variant": c["variant"], "vseed": c.get("vseed", 0), "disable_f3": disable_f3}
        procs.append(spawn(cfg, c["hashseed"]))
    ra, rb = (collect(p, 120) for p in procs)
    run_pair.last_details = (ra.get("details", []), rb.get("details", []))
    return ra["digests"][0], rb["digests"][0], ra["log"], rb["log"]


# ------------------------------------------------------------------ parent side

def configs_for(tier):
    if tier == "quick":
        seeds = [0, 1, 2, 3, 5, 8, 13, 21, 34, 55, 89, 144, 233, 377, 610, 987]
    else:
        seeds = list(range(0, 64))
    cfgs = []
    for j, hs in enumerate(seeds):
        variant = {"id": j}
        if j % 4 == 1:
            variant["kw"] = True
        elif j % 4 == 2:
            variant["creation"] = "leaves"
        elif j % 4 == 3:
            variant["kw"] = True
            variant["creation"] = "all"
        if j % 4 in (2, 3):
            variant["order"] = "reverse"
        if j % 8 in (1, 6):
            variant["fresh"] = True
        elif j % 8 in (3, 4):
            variant["interned"] = True
        cfgs.append({"hashseed": hs, "variant": variant})
    return cfgs


def main(args, seed):
    if getattr(args, "child", None):
        return child_main(json.loads(args.child))
    print(f"VERIF_SEED={seed} property={PROP} tier={args.tier}")
    if args.replay:
        return do_replay(args.replay)
    t0 = time.time()
    tier = args.tier
    n_runs = args.runs or (5000 if tier == "quick" else 30000)
    cfgs = configs_for(tier)
    workers = args.workers or min(16, os.cpu_count() or 1)
    # every configuration executes the same run indices; slices keep all cores busy
    slice_size = 500
    jobs = []
    for ci, c in enumerate(cfgs):
        for s in range(0, n_runs, slice_size):
            jobs.append((ci, s, min(n_runs, s + slice_size)))
    results = {}          # (ci, start) -> child output
    running = []
    ji = 0
    set_orders = {}
    while ji < len(jobs) or running:
        while ji < len(jobs) and len(running) < workers:
            ci, s, e = jobs[ji]
            cfg = {"seed": seed, "start": s, "stop": e, "variant": cfgs[ci]["variant"]}
            running.append((ci, s, spawn(cfg, cfgs[ci]["hashseed"])))
            ji += 1
        ci, s, proc = running.pop(0)
        results[(ci, s)] = collect(proc, 1800)
        if time.time() - getattr(main, "_last", t0) > 60:
            main._last = time.time()
            print(f"progress: {len(results)}/{len(jobs)} interpreter slices, {time.time() - t0:.0f}s", flush=True)
    # compare digests run by run across configurations
    mismatches = []
    digests = {}
    nontriv = 0
    distinct = set()
    ops = failed = 0
    for (ci, s), r in sorted(results.items()):
        set_orders[ci] = tuple(r["set_order"])
        ops += r["ops"]
        failed += r["failed"]
        for off, d in enumerate(r["digests"]):
            idx = s + off
            if ci == 0:
                digests[idx] = d
                if r["nontrivial"][off]:
                    nontriv += 1
                    distinct.add(d)
    for (ci, s), r in sorted(results.items()):
        if ci == 0:
            continue
        for off, d in enumerate(r["digests"]):
            idx = s + off
            if digests[idx] != d:
                mismatches.append((idx, ci))
    known = known_mod.load()
    violations = []
    known_hits = 0
    seen_idx = set()
    for idx, ci in mismatches:
        if idx in seen_idx or len(violations) >= 3:
            continue
        seen_idx.add(idx)
        path, status = investigate(seed, idx, cfgs[0], cfgs[ci], known)
        if status == "known-F3":
            known_hits += 1
            continue
        if status == "not-reproduced":
            # not reproducible from the scenario alone: does it reproduce in the context of the runs that
            # preceded it in the same interpreter (process-global state accumulating across runs)?
            start = (idx // slice_size) * slice_size
            path = investigate_in_context(seed, start, idx, cfgs[0], cfgs[ci],
                                          stop=min(n_runs, start + slice_size))
            if path is None:
                raise engine.HarnessError(f"digest mismatch for run {idx} reproduces neither in isolation nor "
                                          "in context: the harness itself is nondeterministic")
        violations.append(path)
    wall = time.time() - t0
    n_orders = len(set(set_orders.values()))
    print(f"runs={n_runs} configurations={len(cfgs)} executions={n_runs * len(cfgs)} ops={ops} failed_ops={failed} "
          f"distinct_nontrivial={len(distinct)} distinct_set_orders={n_orders} mismatching_runs={len(seen_idx)} "
          f"wall={wall:.1f}s")
    if known_hits:
        print(f"KNOWN-FINDING: property=C18 F3 exception class of early Differential.at follows set order when the "
              f"unsound even-root-of-even-power rewrite makes one symbolic partial raise ({known_hits} runs)")
    for p in violations:
        print(f"VIOLATION property={PROP} replay={p}")
    if not args.no_evidence:
        write_evidence(tier, seed, n_runs, cfgs, ops, failed, len(distinct), nontriv, n_orders, set_orders,
                       len(violations), wall, sample_run(seed))
    print(f"{'HELD' if not violations else 'VIOLATED'} property={PROP} total_wall={time.time() - t0:.1f}s")
    return 1 if violations else 0


def sample_run(seed):
    scn, run = run_one(seed, 0, {})
    return {"run_index": 0, "scenario": {"nodes": scn["nodes"], "points": scn["points"], "steps": scn["steps"]},
            "event_log": run.log[:40]}


def investigate(seed, idx, cfg_a, cfg_b, known):
    """Reproduce the mismatch in isolation, attribute or minimise, write the replay file."""
    rng = random.Random(runner.mix(seed, PROP, idx))
    scn = gen_run(rng, idx)
    a = {"hashseed": cfg_a["hashseed"], "variant": cfg_a["variant"],
         "vseed": runner.mix(seed, "C18v", idx) ^ cfg_a["variant"].get("id", 0)}
    b = {"hashseed": cfg_b["hashseed"], "variant": cfg_b["variant"],
         "vseed": runner.mix(seed, "C18v", idx) ^ cfg_b["variant"].get("id", 0)}
    da, db, la, lb = run_pair(scn, a, b)
    if da == db:
        return None, "not-reproduced"
    if known_mod.listed(known, "C06", "F3"):
        da3, db3, _, _ = run_pair(scn, a, b, disable_f3=True)
        if da3 == db3:
            return None, "known-F3"

    def still_fails(cand):
        x, y, _, _ = run_pair(cand, a, b)
        return x != y
    from . import shrink as shrink_mod
    small = shrink_mod.shrink(scn, still_fails, budget_s=float(os.environ.get("VERIF_SHRINK_S", "90")), max_rounds=3)
    da, db, la, lb = run_pair(small, a, b)
    first = next((i for i, (x, y) in enumerate(zip(la, lb)) if x != y), None)
    os.makedirs(os.path.join(VERIF, "replays"), exist_ok=True)
    path = os.path.join(VERIF, "replays", f"{PROP}-{seed}-{idx}.json")
    doc = {"property": PROP, "violation_class": "digest-differs-across-configurations", "verif_seed": seed,
           "run_index": idx, "scenario": small, "config_a": a, "config_b": b,
           "first_differing_event": None if first is None else {"a": la[first], "b": lb[first]},
           "event_log_a": la, "event_log_b": lb,
           "how_to_replay": f"./check {PROP} --replay {path}"}
    with open(path, "w") as f:
        json.dump(doc, f, indent=1)
    print(f"violation run={idx}: configurations hashseed={a['hashseed']} {a['variant']} vs hashseed={b['hashseed']} "
          f"{b['variant']} disagree; minimised to {len(small['steps'])} steps / {len(small['nodes'])} nodes")
    if first is not None:
        print(f"  A: {la[first]}\n  B: {lb[first]}")
        da_, db_ = getattr(run_pair, "last_details", ([], []))
        if first < len(da_) and first < len(db_):
            print(f"  A outcome: {da_[first]}\n  B outcome: {db_[first]}")
            doc["first_differing_outcome"] = {"a": da_[first], "b": db_[first]}
            with open(path, "w") as f:
                json.dump(doc, f, indent=1)
    return path, "violation"


def _slice_digest(seed, start, stop, cfg, idx=None):
    idx = stop - 1 if idx is None else idx
    c = {"seed": seed, "start": start, "stop": stop, "variant": cfg["variant"], "dump": [idx]}
    r = collect(spawn(c, cfg["hashseed"]), 1800)
    return r["digests"][idx - start], r.get("logs", {}).get(str(idx), [])


def investigate_in_context(seed, start, idx, cfg_a, cfg_b, stop=None):
    stop = idx + 1 if stop is None else stop
    da, la = _slice_digest(seed, start, stop, cfg_a, idx)
    db, lb = _slice_digest(seed, start, stop, cfg_b, idx)
    if da == db:
        return None
    first = next((i for i, (x, y) in enumerate(zip(la, lb)) if x != y), None)
    os.makedirs(os.path.join(VERIF, "replays"), exist_ok=True)
    path = os.path.join(VERIF, "replays", f"{PROP}-{seed}-{idx}-context.json")
    doc = {"property": PROP, "violation_class": "digest-differs-across-configurations-in-context", "mode": "slice",
           "verif_seed": seed, "start": start, "stop": stop, "run_index": idx,
           "config_a": {"hashseed": cfg_a["hashseed"], "variant": cfg_a["variant"]},
           "config_b": {"hashseed": cfg_b["hashseed"], "variant": cfg_b["variant"]},
           "note": "reproduces only after the preceding runs of the same interpreter (process-global state); "
                   "the replay re-executes runs start..run_index of the seeded battery in two fresh interpreters",
           "first_differing_event": None if first is None else {"a": la[first], "b": lb[first]},
           "how_to_replay": f"./check {PROP} --replay {path}"}
    with open(path, "w") as f:
        json.dump(doc, f, indent=1)
    print(f"violation run={idx} (in the context of runs {start}..{stop - 1} of the same interpreter): hashseed={cfg_a['hashseed']} {cfg_a['variant']} vs "
          f"hashseed={cfg_b['hashseed']} {cfg_b['variant']} disagree")
    if first is not None:
        print(f"  A: {la[first]}\n  B: {lb[first]}")
    return path


def do_replay(path):
    with open(path) as f:
        doc = json.load(f)
    if doc.get("mode") == "slice":
        stop = doc.get("stop", doc["run_index"] + 1)
        da, la = _slice_digest(doc["verif_seed"], doc["start"], stop, doc["config_a"], doc["run_index"])
        db, lb = _slice_digest(doc["verif_seed"], doc["start"], stop, doc["config_b"], doc["run_index"])
        if da != db:
            print(f"VIOLATION property={PROP} replay={path}")
            return 1
        print("replay did not reproduce a violation on the current tree")
        return 0
    da, db, la, lb = run_pair(doc["scenario"], doc["config_a"], doc["config_b"])
    if da != db:
        first = next((i for i, (x, y) in enumerate(zip(la, lb)) if x != y), None)
        if first is not None:
            print(f"  A: {la[first]}\n  B: {lb[first]}")
        print(f"VIOLATION property={PROP} replay={path}")
        return 1
    print("replay did not reproduce a violation on the current tree")
    return 0


def write_evidence(tier, seed, n_runs, cfgs, ops, failed, distinct, nontriv, n_orders, set_orders, nviol, wall, sample):
    doc = {
        "property_id": PROP, "tier": tier, "seed": seed, "level": "exploration",
        "coverage": {
            "evaluations": n_runs * len(cfgs),
            "distinct_nontrivial": distinct,
            "rule": RULE,
            "samples": [sample],
            "runs_per_configuration": n_runs,
            "configurations": [{"PYTHONHASHSEED": c["hashseed"], "variant": c["variant"]} for c in cfgs],
            "nontrivial_runs": nontriv,
            "operations_executed": ops,
            "operations_failed": failed,
            "distinct_set_iteration_orders_observed": n_orders,
            "set_iteration_orders": [list(v) for v in sorted(set(set_orders.values()))][:8],
            "interleaving_measure": "distinct iteration orders of a probe set of 10 variable names across the interpreters",
            "fault_kinds": "hash seed change, keyword-order permutation, creation-order permutation with junk allocations; "
                           "DomainError / CoordinateMissing / arity failures occur inside the battery as in C09",
            "simulated_runs_per_hour": int(n_runs * len(cfgs) / wall * 3600) if wall > 0 else 0,
            "simulated_time": f"{ops} logical steps in the reference configuration (no clock in the library)",
            "real_vs_stub": "all of smoothmath runs real code from /repo/src; nothing stubbed",
        },
        "assumptions": ASSUMPTIONS,
        "wall_s": round(wall, 2),
        "violations": nviol,
    }
    os.makedirs(os.path.join(VERIF, "evidence"), exist_ok=True)
    with open(os.path.join(VERIF, "evidence", f"{PROP}.json"), "w") as f:
        json.dump(doc, f, indent=1)
