"""Delta-debugging minimiser for scenarios.  Re-executes in-process while the same violation
class persists.  Deterministic: no randomness, fixed candidate order."""
from __future__ import annotations
import copy
import time

from . import lib

SIMPLE_VALUES = [1, 2, -1, 0, 0.5]


def _refs(step):
    out = []
    for key in ("o", "e", "a", "b"):
        if key in step:
            out.append(step[key])
    out.extend(step.get("kids", ()))
    return out


def _used_nodes(scn):
    """Indices of table nodes reachable from any step reference."""
    nodes = scn["nodes"]
    mark = set()
    stack = []
    for st in scn["steps"]:
        for r in _refs(st):
            if r[0] == "n":
                stack.append(int(r[1:]))
    while stack:
        i = stack.pop()
        if i in mark:
            continue
        mark.add(i)
        stack.extend(nodes[i].get("kids", ()))
    return mark


def gc_nodes(scn):
    """Drop unreferenced nodes and renumber (keeps topological order)."""
    used = _used_nodes(scn)
    order = sorted(used)
    remap = {old: new for new, old in enumerate(order)}
    new_nodes = []
    for old in order:
        n = dict(scn["nodes"][old])
        if "kids" in n:
            n["kids"] = [remap[k] for k in n["kids"]]
        new_nodes.append(n)

    def rn(name):
        return f"n{remap[int(name[1:])]}" if name[0] == "n" else name
    new_steps = []
    for st in scn["steps"]:
        st = dict(st)
        for key in ("o", "e", "a", "b"):
            if key in st:
                st[key] = rn(st[key])
        if "kids" in st:
            st["kids"] = [rn(k) for k in st["kids"]]
        new_steps.append(st)
    out = dict(scn)
    out["nodes"] = new_nodes
    out["steps"] = new_steps
    return out


def gc_points(scn):
    used = sorted({st["p"] for st in scn["steps"] if "p" in st})
    remap = {old: new for new, old in enumerate(used)}
    out = dict(scn)
    out["points"] = [scn["points"][i] for i in used]
    out["steps"] = [dict(st, p=remap[st["p"]]) if "p" in st else st for st in scn["steps"]]
    return out


def _redirect(scn, i, j):
    """Replace every reference to node i by node j (j < i), in kids lists and in steps."""
    out = copy.deepcopy(scn)
    for n in out["nodes"]:
        if "kids" in n:
            n["kids"] = [j if k == i else k for k in n["kids"]]
    for st in out["steps"]:
        for key in ("o", "e", "a", "b"):
            if st.get(key) == f"n{i}":
                st[key] = f"n{j}"
        if "kids" in st:
            st["kids"] = [f"n{j}" if k == f"n{i}" else k for k in st["kids"]]
    return out


def shrink(scn, still_fails, budget_s=60.0, max_rounds=6):
    """still_fails(scn) -> bool.  Returns a (locally) minimal scenario that still fails."""
    t_end = time.time() + budget_s
    best = scn

    def attempt(cand):
        nonlocal best
        if time.time() > t_end:
            return False
        try:
            ok = still_fails(cand)
        except Exception:       # noqa: BLE001 - a malformed candidate is simply not taken
            ok = False
        if ok:
            best = cand
        return ok

    # 0. session mode: drop earlier scenarios of the same process (chunks, then singles)
    if best.get("prefix"):
        chunk = max(1, len(best["prefix"]) // 2)
        while chunk >= 1:
            i = len(best["prefix"]) - chunk
            while i >= 0:
                cand = dict(best)
                cand["prefix"] = best["prefix"][:i] + best["prefix"][i + chunk:]
                attempt(cand)
                i -= chunk
                i = min(i, len(best["prefix"]) - chunk)
            chunk //= 2
        if not best["prefix"]:
            best = {k: v for k, v in best.items() if k != "prefix"}

    for _ in range(max_rounds):
        before = _measure(best)
        # 1. steps: chunks then singles, from the end
        n = len(best["steps"])
        chunk = max(1, n // 2)
        while chunk >= 1:
            i = len(best["steps"]) - chunk
            while i >= 0:
                cand = dict(best)
                cand["steps"] = best["steps"][:i] + best["steps"][i + chunk:]
                if cand["steps"] and attempt(cand):
                    pass
                i -= chunk
            chunk //= 2
        # garbage collection is itself only a candidate: with some defects even a node that no step
        # refers to matters (constructing it may already disturb its children)
        attempt(gc_nodes(best))
        attempt(gc_points(best))
        # 2. world: replace a node by one of its kids / by a leaf constant; lower arities
        i = len(best["nodes"]) - 1
        while i >= 0:
            if i >= len(best["nodes"]):
                i = len(best["nodes"]) - 1
                continue
            for cand in _node_candidates(best, i):
                if attempt(cand):
                    break
            i -= 1
        # 3. points: drop coordinates, simplify values, merge points
        for pi in range(len(best["points"])):
            ci = len(best["points"][pi]) - 1
            while ci >= 0:
                cand = copy.deepcopy(best)
                del cand["points"][pi][ci]
                if not attempt(cand):
                    val = best["points"][pi][ci][1]
                    for v in SIMPLE_VALUES:
                        if v == val and type(v) is type(val):
                            break
                        cand = copy.deepcopy(best)
                        cand["points"][pi][ci][1] = v
                        if attempt(cand):
                            break
                ci -= 1
        for pi in range(len(best["points"]) - 1, 0, -1):
            for pj in range(pi):
                cand = copy.deepcopy(best)
                for st in cand["steps"]:
                    if st.get("p") == pi:
                        st["p"] = pj
                if attempt(gc_points(cand)):
                    break
        # 4. step arguments
        for si in range(len(best["steps"])):
            st = best["steps"][si]
            for key, val in (("early", False), ("vobj", False), ("via", "ctor"), ("c", 0)):
                if key in st and st[key] != val:
                    cand = copy.deepcopy(best)
                    cand["steps"][si][key] = val
                    attempt(cand)
            if "num" in st:
                for v in SIMPLE_VALUES:
                    cand = copy.deepcopy(best)
                    cand["steps"][si]["num"] = v
                    if attempt(cand):
                        break
        if "vars" in best:
            used_vars = [v for v in best["vars"] if any(n.get("name") == v for n in best["nodes"])
                         or any(st.get("v") == v for st in best["steps"])]
            cand = dict(best)
            cand["vars"] = used_vars
            attempt(cand)
        if _measure(best) >= before or time.time() > t_end:
            break
    return best


def _node_candidates(scn, i):
    """Simpler variants of node i, most aggressive first (generated lazily against a fixed scn)."""
    node = scn["nodes"][i]
    kids = node.get("kids", [])
    for k in kids:
        yield gc_nodes(_redirect(scn, i, k))
    if node["op"] not in ("Variable", "Constant"):
        cand = copy.deepcopy(scn)
        cand["nodes"][i] = {"op": "Constant", "value": 1}
        yield gc_nodes(cand)
        yield cand
    if kids and node["op"] in lib.NARY:
        for drop in range(len(kids)):
            cand = copy.deepcopy(scn)
            cand["nodes"][i]["kids"] = kids[:drop] + kids[drop + 1:]
            yield gc_nodes(cand)
    if node["op"] == "Constant" and not (node["value"] == 1 and isinstance(node["value"], int)):
        for v in SIMPLE_VALUES:
            if v == node["value"] and type(v) is type(node["value"]):
                break
            cand = copy.deepcopy(scn)
            cand["nodes"][i] = {"op": "Constant", "value": v}
            yield cand
    if node.get("n") not in (None, 2):
        for v in (2, 1, 3):
            if v == node.get("n"):
                continue
            cand = copy.deepcopy(scn)
            cand["nodes"][i]["n"] = v
            yield cand
    if node.get("base") is not None and node["base"] != 2:
        cand = copy.deepcopy(scn)
        cand["nodes"][i]["base"] = 2
        yield cand


def _measure(scn):
    return (len(scn["steps"]), len(scn["nodes"]), sum(len(p) for p in scn["points"]))
