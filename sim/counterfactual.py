"""Harness-side counterfactuals used ONLY to classify an already-found disagreement (never during
exploration): (1) the library with the even-root-of-even-power rewrite (known finding F3) disabled,
(2) Monte-Carlo arithmetic: every math_functions result perturbed by a relative 1e-12, to tell a
rounding-sensitive disagreement from a gross one."""
from __future__ import annotations
import random

from . import lib


class Unavailable(Exception):
    pass


def disable_even_root_of_even_power():
    """Returns a restore() callable.  NthRoot(NthPower(u, even), even) is left alone instead of being
    rewritten to NthPower(NthRoot(u, even), even) (which shrinks the domain to u > 0)."""
    NthRoot = lib.EXPR_CLASSES["NthRoot"]
    orig = NthRoot.__dict__.get("_reduce_nth_root_of_mth_power")
    if orig is None:
        raise Unavailable("NthRoot._reduce_nth_root_of_mth_power not found")

    def patched(self):
        # decided from the rule's own output and the public .n properties only, so that a refactor of
        # private attribute names does not silently switch the attribution off
        result = orig(self)
        try:
            if (result is not None and type(result).__name__ == "NthPower"
                    and self.n % 2 == 0 and result.n % 2 == 0):
                return None
        except (AttributeError, TypeError):
            pass
        return result
    NthRoot._reduce_nth_root_of_mth_power = patched

    def restore():
        NthRoot._reduce_nth_root_of_mth_power = orig
    return restore


def even_root_rule_is_disabled():
    """Is the F3 counterfactual effective right now?  (A refactor -- e.g. reducer lists cached per class --
    can make patching the named method ineffective.)  Decided by behaviour, not by introspection."""
    try:
        V, P, R = lib.EXPR_CLASSES["Variable"], lib.EXPR_CLASSES["NthPower"], lib.EXPR_CLASSES["NthRoot"]
        out = R(P(V("x"), 2), 2)._normalize()
        return type(out).__name__ == "NthRoot"
    except Exception:       # noqa: BLE001
        return False


MF_NAMES = ["add", "minus", "negation", "multiply", "divide", "reciprocal", "power", "nth_power",
            "nth_root", "exponential", "logarithm", "cosine", "sine"]


def perturb_arithmetic(seed, rel=1e-12):
    """Monte-Carlo arithmetic on the library's arithmetic seam (smoothmath._private.math_functions).
    Returns restore()."""
    try:
        import smoothmath._private.math_functions as mf
    except ImportError as e:
        raise Unavailable(str(e))
    rng = random.Random(seed)
    saved = {}
    for name in MF_NAMES:
        f = getattr(mf, name, None)
        if f is None:
            continue
        saved[name] = f

        def wrapped(*a, _f=f, **kw):
            r = _f(*a, **kw)
            if isinstance(r, float) and r != 0.0 and r == r and abs(r) != float("inf"):
                return r * (1.0 + rel * (2.0 * rng.random() - 1.0))
            return r
        setattr(mf, name, wrapped)
    if not saved:
        raise Unavailable("no math_functions to perturb")

    def restore():
        for name, f in saved.items():
            setattr(mf, name, f)
    return restore


def lift_reduction_bound(factor=1000):
    """Counterfactual for known finding F4: the rewriter never gives up.  REDUCTION_STEPS_BOUND is a
    module global read at call time.  Returns restore()."""
    try:
        import smoothmath._private.base_expression.expression as be
    except ImportError as e:
        raise Unavailable(str(e))
    old = getattr(be, "REDUCTION_STEPS_BOUND", None)
    if not isinstance(old, int):
        raise Unavailable("REDUCTION_STEPS_BOUND not found")
    be.REDUCTION_STEPS_BOUND = old * factor

    def restore():
        be.REDUCTION_STEPS_BOUND = old
    return restore
