"""Pristine-process reference oracle (C09).

The in-process replica oracle compares every operation with the same operation on freshly built
copies -- but "fresh copies" built in the same interpreter still share whatever PROCESS-GLOBAL state
a defect may have introduced (a module-level memo keyed by printed form, a class-level dict, an
lru_cache).  For a seeded fraction of the runs the simulator therefore owns the process boundary too:

    zygote Z   forked before this process executed any library operation; never executes one itself
      |- L     forked from Z per run: executes the live scenario (its history is exactly the scenario)
      |- R_k   forked from Z per step k: builds the fresh replica for step k and performs only that step

and every live outcome of L is compared with the outcome of R_k.  Since L starts from a pristine
image, a violation found this way is replayable from the scenario alone.  Forking is the only
"process crash / restart" this library can meaningfully experience: all durable state is the
caller's arguments, everything else must not survive -- which is what this oracle checks.
"""
from __future__ import annotations
import os
import pickle
import select
import signal
import struct

from . import engine
from .engine import E, P, D


class PristineError(engine.HarnessError):
    pass


class PristineIncomplete(Exception):
    """A pristine child hung or died (a defect under test can do that); nothing is claimed for the run."""


CHILD_DEADLINE_S = 150.0


def _send(fd, obj):
    data = pickle.dumps(obj, protocol=pickle.HIGHEST_PROTOCOL)
    os.write(fd, struct.pack("<Q", len(data)))
    view = memoryview(data)
    while view:
        n = os.write(fd, view[:1 << 16])
        view = view[n:]


def _recv(fd):
    head = b""
    while len(head) < 8:
        chunk = os.read(fd, 8 - len(head))
        if not chunk:
            return None
        head += chunk
    (n,) = struct.unpack("<Q", head)
    buf = bytearray()
    while len(buf) < n:
        chunk = os.read(fd, min(1 << 16, n - len(buf)))
        if not chunk:
            return None
        buf += chunk
    return pickle.loads(bytes(buf))


def _in_child(fn, *args, deadline_s=None):
    """Run fn(*args) in a forked child of the calling (pristine) process; return its result."""
    r, w = os.pipe()
    pid = os.fork()
    if pid == 0:
        rc = 0
        try:
            os.close(r)
            try:
                res = ("ok", fn(*args))
            except BaseException as e:      # noqa: BLE001
                res = ("error", f"{type(e).__name__}: {e}")
            _send(w, res)
        except BaseException:               # noqa: BLE001
            rc = 1
        finally:
            os._exit(rc)
    os.close(w)
    try:
        ready, _, _ = select.select([r], [], [], deadline_s or CHILD_DEADLINE_S)
        if not ready:
            try:
                os.kill(pid, signal.SIGKILL)
            except OSError:
                pass
            res = ("incomplete", "child exceeded its deadline")
        else:
            res = _recv(r)
    finally:
        os.close(r)
        os.waitpid(pid, 0)
    if res is None:
        return ("incomplete", "child died without an answer")
    return res


# ----------------------------------------------------------------------------- jobs (run in children)

def _apply_cf(cf):
    if cf == "lift_bound":
        from . import counterfactual as CF
        CF.lift_reduction_bound()


def _live_job(scn, cf):
    _apply_cf(cf)
    g0 = engine.GIVEUP.count
    # session mode: earlier scenarios (own worlds, unrelated objects) executed in the same process
    # first -- process-global state that accumulates across *unrelated* work is history too
    for earlier in scn.get("prefix", ()):
        try:
            engine.Run(earlier, oracles=(), reach=False).execute()
        except engine.HarnessError:
            pass
    run = engine.Run(scn, oracles=(), reach=False)
    run.execute()
    # the bookkeeping the reference jobs need: names bound / objects switched *before* each step
    book = {}
    bound, switched = [], []
    w = run.world
    out = []
    for st, o in run.records:
        book[st["id"]] = {"bound": list(bound), "switched": list(switched)}
        out.append((st["id"], o))
        name = f"s{st['id']}"
        if o[0] == "obj" and name in w.objs:
            bound.append(name)
        if st["k"] == "asx" and o[0] == "obj" and w.types.get(st["o"]) in (P, D) and st["o"] not in switched:
            switched.append(st["o"])
    return {"records": out, "book": book, "gave_up": engine.GIVEUP.count > g0, "log": run.log}


def _ref_job(scn, step, bound, switched, cf):
    _apply_cf(cf)
    g0 = engine.GIVEUP.count
    run = engine.Run(scn, oracles=(), reach=False)
    run.world = w = engine.World(scn)
    by_id = {f"s{st['id']}": st for st in scn["steps"]}
    for name in bound:
        st = by_id[name]
        typ = engine.result_type(st)
        w.types[name] = typ
        w.creator[name] = st
        w.objs[name] = None
        if typ in (P, D):
            w.switched[name] = name in switched
    cache = {}
    try:
        ref_out, ref_obj = engine.apply_op(step, lambda n: run.replica(n, cache), w.fresh_point)
    except engine.ReplicaDiverged as e:
        return {"out": ("replica-diverged", str(e)), "gave_up": engine.GIVEUP.count > g0}
    if ref_obj is not None:
        typ = engine.result_type(step)
        ref_out = ("obj", typ, engine.safe_describe(ref_obj, typ, w.var_names))
    return {"out": ref_out, "gave_up": engine.GIVEUP.count > g0}


REF_KINDS = ("at", "dat", "mk", "comp", "compat", "lcomp", "asx", "norm", "build", "eq", "repr", "peq")


def _pristine_run(scn, cf):
    res = _in_child(_live_job, scn, cf)
    if res[0] != "ok":
        return res
    live = res[1]
    steps = {st["id"]: st for st in scn["steps"]}
    refs = {}
    gave_up = live["gave_up"]
    for sid, out in live["records"]:
        st = steps[sid]
        if out[0] == "skip" or st["k"] not in REF_KINDS:
            continue
        b = live["book"][sid]
        r = _in_child(_ref_job, scn, st, b["bound"], b["switched"], cf)
        if r[0] != "ok":
            return r
        refs[sid] = r[1]["out"]
        gave_up = gave_up or r[1]["gave_up"]
        why = None if r[1]["out"][0] == "replica-diverged" else engine.compare_outcomes(out, r[1]["out"])
        if r[1]["out"][0] == "replica-diverged" or why is not None:
            break                    # first disagreement is enough; later steps are tainted anyway
    return ("ok", {"live": live, "refs": refs, "gave_up": gave_up})


# ----------------------------------------------------------------------------- the zygote

class Zygote:
    def __init__(self):
        req_r, req_w = os.pipe()
        res_r, res_w = os.pipe()
        pid = os.fork()
        if pid == 0:
            try:
                os.close(req_w)
                os.close(res_r)
                while True:
                    msg = _recv(req_r)
                    if msg is None:
                        break
                    try:
                        ans = _pristine_run(*msg)
                    except BaseException as e:      # noqa: BLE001
                        ans = ("error", f"{type(e).__name__}: {e}")
                    _send(res_w, ans)
            finally:
                os._exit(0)
        os.close(req_r)
        os.close(res_w)
        self.pid, self.req_w, self.res_r = pid, req_w, res_r
        self.owner = os.getpid()

    def run(self, scn, cf=None):
        _send(self.req_w, (scn, cf))
        ans = _recv(self.res_r)
        if ans is None:
            raise PristineError("zygote died")
        if ans[0] == "incomplete":
            raise PristineIncomplete(ans[1])
        if ans[0] != "ok":
            raise PristineError(f"pristine execution failed: {ans[1]}")
        return ans[1]

    def close(self):
        try:
            os.close(self.req_w)
            os.close(self.res_r)
            os.waitpid(self.pid, 0)
        except OSError:
            pass


_ZYGOTE = None


def init_zygote():
    """Must be called while this process has not yet executed any library operation (check start-up,
    pool-worker initializer).  A zygote inherited from the parent process is replaced by an own one."""
    global _ZYGOTE
    if _ZYGOTE is not None and _ZYGOTE.owner == os.getpid():
        return _ZYGOTE
    _ZYGOTE = Zygote()
    return _ZYGOTE


def adopt_zygote():
    """A chunk child (forked from a pool worker that is blocked waiting for it) takes over the worker's
    zygote connection: the zygote itself was forked while the worker was pristine and stays pristine."""
    if _ZYGOTE is not None:
        _ZYGOTE.owner = os.getpid()


def zygote():
    if _ZYGOTE is None or _ZYGOTE.owner != os.getpid():
        raise PristineError("no pristine zygote in this process (init_zygote() was not called in time)")
    return _ZYGOTE


class PristineRun:
    """Duck-types the parts of engine.Run that the runner aggregates."""

    def __init__(self, scn, result):
        self.scn = scn
        self.log = result["live"]["log"]
        self.records = [({"id": sid, "k": "?"}, o) for sid, o in result["live"]["records"]]
        self.sigs, self.trans = [], []
        self.violations = []
        self.gave_up = result["gave_up"]
        self.stats = {"ops": sum(1 for _, o in result["live"]["records"] if o[0] != "skip"),
                      "failed_ops": sum(1 for _, o in result["live"]["records"] if o[0] == "exc"),
                      "skipped": sum(1 for _, o in result["live"]["records"] if o[0] == "skip"),
                      "pristine_runs": 1, "pristine_reference_processes": len(result["refs"]),
                      "pristine_compared": len(result["refs"])}


def execute(scn, cf=None):
    """-> (PristineRun, [Violation])"""
    try:
        result = zygote().run(scn, cf)
    except PristineIncomplete:
        run = PristineRun(scn, {"live": {"log": [], "records": []}, "refs": {}, "gave_up": False})
        run.stats["pristine_incomplete"] = 1
        return run, []
    run = PristineRun(scn, result)
    steps = {st["id"]: st for st in scn["steps"]}
    viols = []
    for sid, out in result["live"]["records"]:
        if sid not in result["refs"]:
            continue
        ref = result["refs"][sid]
        st = steps[sid]
        if ref[0] == "replica-diverged":
            viols.append(engine.Violation("C09", "differs-from-pristine-process", sid,
                                          f"step {sid} {st['k']}: live {engine._short(out)} but in a pristine process "
                                          f"the fresh re-derivation fails: {ref[1]}"))
            break
        why = engine.compare_outcomes(out, ref)
        if why is not None:
            viols.append(engine.Violation(
                "C09", "differs-from-pristine-process", sid,
                f"step {sid} {st['k']} {engine._step_args(st)}: after this scenario's history {engine._short(out)} "
                f"vs fresh copies in a process that executed nothing else {engine._short(ref)} ({why})",
                f4_probe={"kind": "step", "step": sid, "ref": engine.outcome_str(ref)}))
            break
    run.violations = viols
    return run, viols
