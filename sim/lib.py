"""Import seam: loads smoothmath from the *current working tree* of /repo.

Everything in the library runs as real code; nothing is stubbed or patched here.
"""
from __future__ import annotations
import os
import sys

sys.dont_write_bytecode = True

REPO = os.environ.get("VERIF_REPO", "/repo")
SRC = os.path.join(REPO, "src")
if SRC not in sys.path:
    sys.path.insert(0, SRC)

import smoothmath as sm                       # noqa: E402
import smoothmath.expression as smx           # noqa: E402

if not os.path.realpath(sm.__file__).startswith(os.path.realpath(SRC)):
    raise RuntimeError(f"smoothmath imported from {sm.__file__}, expected {SRC}")

Point = sm.Point
Partial = sm.Partial
Derivative = sm.Derivative
Differential = sm.Differential
LocatedDifferential = sm.LocatedDifferential
DomainError = sm.DomainError
CoordinateMissing = sm.CoordinateMissing
Expression = sm.Expression

EXPR_CLASSES = {
    name: getattr(smx, name)
    for name in (
        "Variable", "Constant", "Add", "Minus", "Negation", "Multiply", "Divide",
        "Reciprocal", "Power", "NthPower", "NthRoot", "Exponential", "Logarithm",
        "Cosine", "Sine",
    )
}
UNARY = ("Negation", "Reciprocal", "Cosine", "Sine")
PARAM_N = ("NthPower", "NthRoot")
PARAM_BASE = ("Exponential", "Logarithm")
BINARY = ("Minus", "Divide", "Power")
NARY = ("Add", "Multiply")
