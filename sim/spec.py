"""Spec language: node tables (DAGs with sharing), tree specs, structural walker, builders.

A *node table* is a list of dicts in topological order::

    {"op": "Variable", "name": "x"}
    {"op": "Constant", "value": 0.5}
    {"op": "Multiply", "kids": [3, 3, 5]}
    {"op": "NthRoot", "n": 2, "kids": [7]}
    {"op": "Logarithm", "base": 2.0, "kids": [1]}

A node id referenced twice *is* object sharing in the live world.

A *tree spec* is a nested tuple, hashable, used for structural comparison::

    ("Add", (t1, t2, ...)), ("Minus", l, r), ("Negation", k), ("NthRoot", ("i", 2), k),
    ("Logarithm", ("f", "0x1.0p+1"), k), ("Variable", "x"), ("Constant", ("i", 3))
"""
from __future__ import annotations
from . import lib

C = lib.EXPR_CLASSES


class WalkerUnavailable(Exception):
    """The private attribute names the walker relies on are gone (refactor)."""


class Cyclic(Exception):
    """A live expression reaches itself through its children (or is absurdly deep).  Public
    constructors can only build finite trees/DAGs, so this is definitive evidence that an existing
    node was edited in place."""


def num_key(v):
    if isinstance(v, bool):
        return ("b", int(v))
    if isinstance(v, int):
        return ("i", v)
    if isinstance(v, float):
        return ("f", v.hex())
    return ("o", repr(v))


def num_of(key):
    kind, payload = key
    if kind == "i" or kind == "b":
        return payload
    if kind == "f":
        return float.fromhex(payload)
    raise ValueError(key)


def tree_of(obj, _path=None):
    """Structural spec of a live expression (identity-insensitive, side-effect free)."""
    if _path is None:
        _path = set()
    key = id(obj)
    if key in _path or len(_path) > 400:
        raise Cyclic(f"{type(obj).__name__} node is its own descendant (or deeper than 400 levels)")
    _path.add(key)
    cls = type(obj).__name__
    try:
        if cls == "Variable":
            return ("Variable", obj.name)
        if cls == "Constant":
            return ("Constant", num_key(obj.value))
        if cls in lib.NARY:
            return (cls, tuple(tree_of(k, _path) for k in obj._inners))
        if cls in lib.BINARY:
            return (cls, tree_of(obj._left, _path), tree_of(obj._right, _path))
        if cls in lib.UNARY:
            return (cls, tree_of(obj._inner, _path))
        if cls in lib.PARAM_N or cls in lib.PARAM_BASE:
            return (cls, num_key(obj._parameter), tree_of(obj._inner, _path))
    except AttributeError as e:
        raise WalkerUnavailable(str(e))
    finally:
        _path.discard(key)
    raise WalkerUnavailable(f"unknown class {cls}")


def children_of(obj):
    """Live child objects (for memo inspection)."""
    cls = type(obj).__name__
    if cls in lib.NARY:
        return list(obj._inners)
    if cls in lib.BINARY:
        return [obj._left, obj._right]
    if cls in lib.UNARY or cls in lib.PARAM_N or cls in lib.PARAM_BASE:
        return [obj._inner]
    return []


def tree_size(tree):
    op = tree[0]
    if op in ("Variable", "Constant"):
        return 1
    if op in lib.NARY:
        return 1 + sum(tree_size(k) for k in tree[1])
    if op in lib.BINARY:
        return 1 + tree_size(tree[1]) + tree_size(tree[2])
    if op in lib.UNARY:
        return 1 + tree_size(tree[1])
    return 1 + tree_size(tree[2])


def tree_vars(tree, acc=None):
    """Variable names in first-occurrence order (a list, never a set)."""
    if acc is None:
        acc = []
    op = tree[0]
    if op == "Variable":
        if tree[1] not in acc:
            acc.append(tree[1])
    elif op in ("Constant", "Unwalkable"):
        pass
    elif op in lib.NARY:
        for k in tree[1]:
            tree_vars(k, acc)
    elif op in lib.BINARY:
        tree_vars(tree[1], acc)
        tree_vars(tree[2], acc)
    elif op in lib.UNARY:
        tree_vars(tree[1], acc)
    else:
        tree_vars(tree[2], acc)
    return acc


def build_tree(tree):
    """Brand-new, never-used objects, no sharing, through the public constructors."""
    op = tree[0]
    if op == "Variable":
        return C["Variable"](tree[1])
    if op == "Constant":
        return C["Constant"](num_of(tree[1]))
    if op in lib.NARY:
        return C[op](*[build_tree(k) for k in tree[1]])
    if op in lib.BINARY:
        return C[op](build_tree(tree[1]), build_tree(tree[2]))
    if op in lib.UNARY:
        return C[op](build_tree(tree[1]))
    if op in lib.PARAM_N:
        return C[op](build_tree(tree[2]), num_of(tree[1]))
    if op in lib.PARAM_BASE:
        return C[op](build_tree(tree[2]), base=num_of(tree[1]))
    raise ValueError(op)


def table_of(obj):
    """(node table, root index) of a live expression, preserving object sharing (by identity)."""
    index = {}
    nodes = []

    def visit(o):
        key = id(o)
        if key in index:
            if index[key] is None:
                raise Cyclic(f"{type(o).__name__} node is its own descendant")
            return index[key]
        index[key] = None            # in progress
        cls = type(o).__name__
        try:
            if cls == "Variable":
                node = {"op": cls, "name": o.name}
            elif cls == "Constant":
                node = {"op": cls, "value": o.value}
            else:
                kids = [visit(k) for k in children_of(o)]
                node = {"op": cls, "kids": kids}
                if cls in lib.PARAM_N:
                    node["n"] = o._parameter
                elif cls in lib.PARAM_BASE:
                    node["base"] = o._parameter
                elif cls not in lib.NARY and cls not in lib.BINARY and cls not in lib.UNARY:
                    raise WalkerUnavailable(f"unknown class {cls}")
        except AttributeError as e:
            raise WalkerUnavailable(str(e))
        nodes.append(node)
        index[key] = len(nodes) - 1
        return index[key]
    root = visit(obj)
    return nodes, root


def build_table(nodes, root):
    """Fresh objects from a node table, sharing preserved; returns the root object."""
    live = []
    for node in nodes:
        live.append(node_construct(node, [live[k] for k in node.get("kids", ())]))
    return live[root]


def tree_to_json(tree):
    op = tree[0]
    if op == "Variable":
        return ["Variable", tree[1]]
    if op == "Constant":
        return ["Constant", list(tree[1])]
    if op in lib.NARY:
        return [op, [tree_to_json(k) for k in tree[1]]]
    if op in lib.BINARY:
        return [op, tree_to_json(tree[1]), tree_to_json(tree[2])]
    if op in lib.UNARY:
        return [op, tree_to_json(tree[1])]
    return [op, list(tree[1]), tree_to_json(tree[2])]


def tree_str(tree):
    """Compact human-readable rendering (for evidence samples and violation reports)."""
    op = tree[0]
    if op == "Variable":
        return tree[1]
    if op == "Unwalkable":
        return f"<unwalkable {tree[1]}>"
    if op == "Constant":
        return repr(num_of(tree[1]))
    if op in lib.NARY:
        return f"{op}({', '.join(tree_str(k) for k in tree[1])})"
    if op in lib.BINARY:
        return f"{op}({tree_str(tree[1])}, {tree_str(tree[2])})"
    if op in lib.UNARY:
        return f"{op}({tree_str(tree[1])})"
    return f"{op}[{num_of(tree[1])!r}]({tree_str(tree[2])})"


# ---------------------------------------------------------------- node tables

def node_construct(node, kids):
    """Build one live node from its table entry and already-built child objects."""
    op = node["op"]
    if op == "Variable":
        return C["Variable"](node["name"])
    if op == "Constant":
        return C["Constant"](node["value"])
    if op in lib.NARY:
        return C[op](*kids)
    if op in lib.BINARY:
        return C[op](kids[0], kids[1])
    if op in lib.UNARY:
        return C[op](kids[0])
    if op in lib.PARAM_N:
        return C[op](kids[0], node["n"])
    if op in lib.PARAM_BASE:
        return C[op](kids[0], base=node["base"])
    raise ValueError(op)


def node_tree(nodes, i, memo=None):
    """Tree spec (expanded, no sharing) of node i of a node table."""
    if memo is None:
        memo = {}
    if i in memo:
        return memo[i]
    node = nodes[i]
    op = node["op"]
    if op == "Variable":
        t = ("Variable", node["name"])
    elif op == "Constant":
        t = ("Constant", num_key(node["value"]))
    elif op in lib.NARY:
        t = (op, tuple(node_tree(nodes, k, memo) for k in node.get("kids", ())))
    elif op in lib.BINARY:
        t = (op, node_tree(nodes, node["kids"][0], memo), node_tree(nodes, node["kids"][1], memo))
    elif op in lib.UNARY:
        t = (op, node_tree(nodes, node["kids"][0], memo))
    elif op in lib.PARAM_N:
        t = (op, num_key(node["n"]), node_tree(nodes, node["kids"][0], memo))
    elif op in lib.PARAM_BASE:
        t = (op, num_key(node["base"]), node_tree(nodes, node["kids"][0], memo))
    else:
        raise ValueError(op)
    memo[i] = t
    return t


def coord_value(v):
    """Scenario files spell exotic real-number coordinates as {"frac": [p, q]} (fractions.Fraction)."""
    if isinstance(v, dict) and "frac" in v:
        from fractions import Fraction
        return Fraction(v["frac"][0], v["frac"][1])
    return v


def make_point(coords):
    """coords: list of [name, value] pairs, order preserved (it is the caller's spelling)."""
    return lib.Point(**{name: coord_value(value) for name, value in coords})
