"""Per-property plans: workload profile, inline oracles, post-hoc oracle, non-triviality rule."""
from __future__ import annotations

from . import gen
from .runner import Plan


class C09Plan(Plan):
    prop = "C09"
    oracles = ("replica",)
    runs = {"quick": 50_000, "thorough": 3_000_000}
    rule = ("each run = seeded world (expression DAG with shared node objects, tripwire sub-expressions) + "
            "2-4 logical clients whose public-API operations are interleaved by the seeded scheduler; "
            "after every operation the same operation is performed on freshly built, never-used copies and "
            "the outcomes must be identical.  A run is non-trivial when at least one operation started with "
            "history in its sub-tree (memo written at another point, half-written memo left by a failed call, "
            "memo written by another client's expression, a late object already switched to its symbolic path, "
            "or a retry after a failure); distinct = distinct event-log digest."
            "  Fixed residue classes of the run index are long histories (hundreds of operations on a handful of objects), hot loops (30-120 repeats of a query on the same object: per-object call thresholds) and wide / deep / many-variable worlds")
    assumptions = [
        "public constructors are deterministic and repr/== are side-effect free (C10 checks the latter)",
        "one API operation is one atomic step: no pre-emption inside an operation (the library makes no thread-safety claim)",
        "numbers are compared with ==, exceptions by class; bit-level-only and message-only differences are counted as notes",
        "the structural walker reads _inner/_left/_right/_inners/_parameter/name/value",
    ]

    uses_pristine = True
    PRISTINE_EVERY = 12
    SESSION_EVERY = 100
    SESSION_LEN = 80
    # the unrelated earlier work of a session is simplification-heavy (that is where process-global
    # bookkeeping -- step budgets, memo tables, registries -- would be touched)
    SESSION_BASE = {
        "n_steps": (8, 20), "n_nodes": (8, 30), "early_prob": [0.5, 0.8], "ovf_prob": [0.0, 0.03, 0.1],
        "twin_prob": [0.2, 0.5], "sweep_prob": [0.1, 0.3],
        "weights": {
            "at": 3, "at_num": 1, "mk_partial": 4, "mk_derivative": 1.5, "mk_differential": 3,
            "mk_located": 1, "pat": 2, "dat": 1, "comp": 3, "compat": 1, "lcomp": 1, "asx": 6,
            "build": 2, "norm": 6, "eq": 0.5, "hash": 0.2, "repr": 0.2, "peq": 0.2,
        },
    }

    # long histories: hundreds of operations on a handful of objects, so that per-object or per-process
    # thresholds (a counter, an eviction limit, "after the 100th call take the fast path") are crossed
    LONG_EVERY = 100
    LONG_BASE = {"n_steps": (120, 320), "n_nodes": (5, 14), "max_depth": (2, 4), "max_size": 80,
                 "n_points": (3, 5)}

    def gen(self, rng, tier, index):
        base = None
        if index % (5000 if tier == "quick" else 2000) == 17:
            return gen.gen_giveup(rng)          # natural rewrite-budget exhaustion (GIVEUP fault)
        if tier == "thorough" and index % 7 == 3:
            base = {"n_steps": (25, 60), "n_nodes": (10, 40)}
        if index % self.LONG_EVERY == 29:
            base = self.LONG_BASE                # a long history on a small world ("sequences of any length")
        if index % self.LONG_EVERY == 61:
            base = gen.BIG_BASE                  # wide, deep, many-variable worlds
        scn = gen.gen_scenario(rng, base)
        if base is self.LONG_BASE and index % (4 * self.LONG_EVERY) != 29:
            gen.hammer(rng, scn)                 # three long histories in four contain hot loops
        if index % self.SESSION_EVERY == 53:
            # a long session: SESSION_LEN unrelated scenarios executed first in the same pristine process,
            # then this one, whose every step is compared with a reference from a process that ran nothing
            scn["prefix"] = [gen.gen_scenario(rng, self.SESSION_BASE) for _ in range(self.SESSION_LEN)]
            scn["pristine"] = True
        elif index % self.PRISTINE_EVERY == 7:
            # process boundary owned by the simulator: live history in one forked pristine process,
            # every reference in another one (sim/pristine.py)
            scn["pristine"] = True
        return scn

    def directed(self):
        from . import directed
        return directed.C09

    def nontrivial(self, run):
        if "probe" not in run.stats:
            return run.stats.get("pristine_compared", 0) >= 2
        p = run.stats["probe"]
        return (p["stale-other-point"] + p["half-written"] + p["foreign-cached"] + p["switched-late"]
                + p["retry-after-failure"]) > 0


PLANS = {"C09": C09Plan()}


class C10Plan(Plan):
    prop = "C10"
    oracles = ("snapshot",)
    unreached_by_design = ("fault:GIVEUP",)      # the large give-up inputs are part of the C09 / C06 plans
    runs = {"quick": 30_000, "thorough": 1_500_000}
    rule = ("same simulator as C09 with a workload biased towards rewriting (simplification, as_expression on all "
            "routes, early objects, new expressions built from library-returned ones).  Every pooled object "
            "(user-built expression node, Point, derivative object, every expression the library returned) is "
            "snapshotted at creation (structural spec, repr); after EVERY operation every pooled object must still "
            "have that spec and repr, be == (both ways) and hash-equal to a freshly built twin, and evaluation-like "
            "operations must give what a twin built from the creation-time snapshot gives.  A run is non-trivial when "
            "it contains at least one rewriting operation (normalise / as_expression / early construction) on an "
            "expression sharing nodes with another pooled object; distinct = distinct event-log digest."
            "  Fixed residue classes of the run index are long histories (hundreds of operations on a handful of objects), hot loops (30-120 repeats of a query on the same object: per-object call thresholds) and wide / deep / many-variable worlds")
    assumptions = [
        "memo fields (_value, _is_fully_reduced, _evaluation_failed, Partial._synthetic_partial) are not part of what an object denotes",
        "the structural walker reads _inner/_left/_right/_inners/_parameter/name/value, _original_expression, _variable_name, Point._coordinates (feature-detected)",
        "one API operation is one atomic step",
    ]
    BASE = {
        "n_steps": (5, 18), "n_nodes": (5, 24), "early_prob": [0.5, 0.8], "kind_off_prob": 0.12,
        "sweep_prob": [0.15, 0.3, 0.45], "poly_prob": [0.05, 0.15, 0.3],
        "weights": {
            "at": 5, "at_num": 1, "mk_partial": 4, "mk_derivative": 1.5, "mk_differential": 3,
            "mk_located": 2, "pat": 4, "dat": 2, "comp": 3, "compat": 2, "lcomp": 1.5, "asx": 5,
            "build": 4, "norm": 4, "eq": 1.5, "hash": 0.7, "repr": 0.7, "peq": 0.7,
        },
    }

    LONG_EVERY = 150
    LONG_BASE = dict(BASE, n_steps=(80, 160), n_nodes=(5, 12), max_depth=(2, 4), max_size=60)

    def gen(self, rng, tier, index):
        if index % self.LONG_EVERY == 61:
            return gen.gen_scenario(rng, dict(self.BASE, **gen.BIG_BASE))   # wide, deep, many-variable worlds
        if index % self.LONG_EVERY == 29:
            scn = gen.gen_scenario(rng, self.LONG_BASE)    # a long history on a small world
            return gen.hammer(rng, scn) if index % (2 * self.LONG_EVERY) == 29 else scn
        return gen.gen_scenario(rng, self.BASE)

    def nontrivial(self, run):
        for st, out in run.records:
            if out[0] == "skip":
                continue
            if st["k"] in ("norm", "asx") or (st["k"] == "mk" and st.get("early")):
                return True
        return False


PLANS["C10"] = C10Plan()


class C06Plan(Plan):
    prop = "C06"
    oracles = ()
    # points of this workload supply every variable (as the property states) and it builds no new expressions
    unreached_by_design = ("fault:MISS", "probe:shared-result-embedded")
    runs = {"quick": 100_000, "thorough": 5_000_000}
    rule = ("each run keeps long-lived derivative objects of every kind (Partial / Derivative / Differential early and "
            "late, components, located differentials, variable as object or name) for 1-3 target expressions that share "
            "node objects, and interleaves at / component / component_at / at(p).component / as_expression / == calls on "
            "them under the seeded scheduler, with failed queries and neighbour evaluations in between, so the same object "
            "is queried before and after its numeric->symbolic switch.  Post-hoc oracle over the history: all outcomes for "
            "the same (expression, variable, point) are all DomainError or equal within 1e-6*max(1,|a|,|b|); all "
            "as_expression() results for the same (expression, variable) are structurally equal; component/Partial and "
            "Differential.at/LocatedDifferential objects are ==.  A run is non-trivial when at least one (expression, "
            "variable, point) was answered by >= 2 different route records; distinct = distinct event-log digest."
            "  Fixed residue classes of the run index are long histories (hundreds of operations on a handful of objects), hot loops (30-120 repeats of a query on the same object: per-object call thresholds) and wide / deep / many-variable worlds")
    assumptions = [
        "inputs are kept in a moderate regime (|constants| <= 3, dyadic-biased grid, depth <= 5)",
        "a disagreement is a candidate; it is discarded (and counted) when a route overflowed / produced inf or nan, or when "
        "Monte-Carlo arithmetic (relative 1e-12 perturbation of every math_functions result, on replays only) shows the "
        "disagreement is within reach of rounding noise; it is attributed to a listed known finding when a counterfactual "
        "replay says so; otherwise it is a violation",
        "points supply all variables of the target expressions (as the property states)",
    ]

    def gen(self, rng, tier, index):
        if index % (50000 if tier == "quick" else 20000) == 17:
            return gen.gen_giveup(rng)          # route agreement after the rewriter gave up (side coverage)
        if index % 200 == 61:
            return gen.gen_c06(rng, dict(gen.BIG_BASE, n_ord=(3, 6), max_size=120, n_nodes=(20, 50), n_steps=(10, 36)))
        if index % 200 == 29:
            # a long life-cycle: the same few route objects queried hundreds of times
            scn = gen.gen_c06(rng, {"n_steps": (150, 400)})
            return gen.hammer(rng, scn)
        return gen.gen_c06(rng)

    def posthoc(self, run):
        from . import routes
        return routes.posthoc(run)

    def nontrivial(self, run):
        c = getattr(run, "extra_stats", {}).get("c06", {})
        return c.get("value_groups_multi_route", 0) > 0

    def directed(self):
        from . import directed
        return directed.C06

    def evidence_extra(self, agg):
        return {"route_agreement": agg["stats"].get("c06", {})}


PLANS["C06"] = C06Plan()
