"""Per-property plans: workload profile, inline oracles, post-hoc oracle, non-triviality rule."""
from __future__ import annotations

from . import gen
from .runner import Plan


class C09Plan(Plan):
    prop = "C09"
    oracles = ("replica",)
    runs = {"quick": 160_000, "thorough": 4_000_000}
    rule = ("each run = seeded world (expression DAG with shared node objects, tripwire sub-expressions) + "
            "2-4 logical clients whose public-API operations are interleaved by the seeded scheduler; "
            "after every operation the same operation is performed on freshly built, never-used copies and "
            "the outcomes must be identical.  A run is non-trivial when at least one operation started with "
            "history in its sub-tree (memo written at another point, half-written memo left by a failed call, "
            "memo written by another client's expression, a late object already switched to its symbolic path, "
            "or a retry after a failure); distinct = distinct event-log digest")
    assumptions = [
        "public constructors are deterministic and repr/== are side-effect free (C10 checks the latter)",
        "one API operation is one atomic step: no pre-emption inside an operation (the library makes no thread-safety claim)",
        "numbers are compared with ==, exceptions by class; bit-level-only and message-only differences are counted as notes",
        "the structural walker reads _inner/_left/_right/_inners/_parameter/name/value",
    ]

    def gen(self, rng, tier, index):
        base = None
        if tier == "thorough" and index % 7 == 3:
            base = {"n_steps": (25, 60), "n_nodes": (10, 40)}
        return gen.gen_scenario(rng, base)

    def nontrivial(self, run):
        p = run.stats["probe"]
        return (p["stale-other-point"] + p["half-written"] + p["foreign-cached"] + p["switched-late"]
                + p["retry-after-failure"]) > 0


PLANS = {"C09": C09Plan()}
