"""C06 post-hoc oracle: replica agreement across differentiation routes and object life-cycles.

Over the recorded history of one run:
  * values: every outcome recorded for the same (expression, variable, point) -- Partial / Derivative .at
    (before and after the numeric->symbolic switch), Differential.component(...).at, component_at,
    Differential.at(...).component, LocatedDifferential.component, early or late, variable as object or
    name -- must be all DomainError or all numbers within |a-b| <= 1e-6*max(1,|a|,|b|);
  * expressions: every as_expression() result for the same (expression, variable) must be structurally equal;
  * Differential(e).component(v) == Partial(e, v) and Differential(e).at(p) == LocatedDifferential(e, p).

A disagreement is only a *candidate*; it is then classified (counterfactual replays, never during
exploration): attributed to a listed known finding, discarded as rounding / overflow (counted), or
reported as a violation.
"""
from __future__ import annotations
import math

from . import engine, spec as S, counterfactual as CF, known as known_mod
from .engine import Violation, E, P, D, F, L

TOL = 1e-6
MCA_SAMPLES = 5
_KNOWN = None


def _known():
    global _KNOWN
    if _KNOWN is None:
        _KNOWN = known_mod.load()
    return _KNOWN


def _etree(world, name):
    if name[0] == "n":
        return world.node_tree(int(name[1:]))
    try:
        return S.tree_of(world.objs[name])
    except (S.Cyclic, RecursionError, S.WalkerUnavailable):
        return ("Unwalkable", name)


def metas(world):
    """name -> meta for derivative objects, derived from provenance."""
    out = {}
    for name, typ in world.types.items():
        if typ == E:
            continue
        st = world.creator[name]
        if st["k"] == "mk":
            et = _etree(world, st["e"])
            m = {"etree": et, "e": st["e"], "early": bool(st.get("early")), "via": "mk"}
            if typ == P:
                m["v"] = st["v"]
            elif typ == D:
                vs = S.tree_vars(et)
                m["v"] = vs[0] if len(vs) == 1 else "whatever"
            elif typ == L:
                m["p"] = st["p"]
        elif st["k"] == "comp":
            pm = out.get(st["o"])
            if pm is None:
                continue
            m = {"etree": pm["etree"], "e": pm["e"], "early": pm["early"], "via": "comp", "v": st["v"],
                 "reverse_symbolic": pm["early"] and st["v"] in S.tree_vars(pm["etree"])}
        elif st["k"] == "dat":
            pm = out.get(st["o"])
            if pm is None:
                continue
            m = {"etree": pm["etree"], "e": pm["e"], "early": pm["early"], "via": "dat", "p": st["p"]}
        else:
            continue
        out[name] = m
    return out


def _norm(out):
    if out[0] == "num":
        return ("num", out[1])
    if out[0] == "exc":
        return ("exc", out[1])
    return None


def collect(run):
    """-> (value_groups, asx_groups, eq_checks)"""
    w = run.world
    ms = metas(w)
    vg, ag, eqs = {}, {}, []
    for st, out in run.records:
        if out[0] == "skip":
            continue
        k = st["k"]
        sid = st["id"]
        if k == "at" and w.types.get(st["o"]) in (P, D):
            m = ms.get(st["o"])
            if m is None:
                continue
            p = st["p"] if "p" in st else st.get("as_p")
            if p is None:
                continue
            sw = run.step_info.get(sid, {}).get("switched")
            label = (f"{'Partial' if w.types[st['o']] == P else 'Derivative'}"
                     f"[{'early' if m['early'] else 'late'}{'+switched' if sw else ''},{m['via']}]"
                     f".at{'(number)' if 'num' in st else ''}#{sid}")
            o = _norm(out)
            if o:
                vg.setdefault((m["etree"], m["v"], p), []).append((label, o, sid))
        elif k == "compat":
            m = ms.get(st["o"])
            o = _norm(out)
            if m and o:
                label = f"Differential[{'early' if m['early'] else 'late'}].component_at#{sid}"
                vg.setdefault((m["etree"], st["v"], st["p"]), []).append((label, o, sid))
        elif k == "lcomp":
            m = ms.get(st["o"])
            o = _norm(out)
            if m and o:
                label = f"LocatedDifferential[{m['via']},{'early' if m['early'] else 'late'}].component#{sid}"
                vg.setdefault((m["etree"], st["v"], m["p"]), []).append((label, o, sid))
        elif (k == "dat" or (k == "mk" and st["cls"] == "LocatedDifferential")):
            if k == "dat":
                pm = ms.get(st["o"])
                if pm is None:
                    continue
                et, early, via = pm["etree"], pm["early"], "Differential.at"
            else:
                et, early, via = _etree(w, st["e"]), False, "LocatedDifferential()"
            label = f"{via}[{'early' if early else 'late'}]#{sid}"
            if out[0] == "exc":
                for v in w.var_names:
                    vg.setdefault((et, v, st["p"]), []).append((label, ("exc", out[1]), sid))
            elif out[0] == "obj" and len(out[2]) >= 3:
                for v, c in out[2][2]:
                    o = ("num", float.fromhex(c[1])) if c[0] == "num" and isinstance(c[1], str) and c[1].startswith(("0x", "-0x")) \
                        else (("exc", c[1]) if c[0] == "exc" else None)
                    if o:
                        vg.setdefault((et, v, st["p"]), []).append((label, o, sid))
        elif k == "asx" and out[0] == "obj":
            m = ms.get(st["o"])
            if m is None:
                continue
            label = (f"{'Partial' if w.types[st['o']] == P else 'Derivative'}"
                     f"[{'early' if m['early'] else 'late'},{m['via']}].as_expression#{sid}")
            ag.setdefault((m["etree"], m["v"]), []).append(
                (label, out[2][0], bool(m.get("reverse_symbolic")), f"s{sid}", sid))
        elif k == "eq" and out[0] == "bool":
            ma, mb = ms.get(st["a"]), ms.get(st["b"])
            if ma is None or mb is None:
                continue
            ta, tb = w.types[st["a"]], w.types[st["b"]]
            if ta == tb == P and ma["etree"] == mb["etree"] and ma["v"] == mb["v"]:
                eqs.append((st, out[1], "Partial/component equality"))
            elif ta == tb == L and ma["etree"] == mb["etree"] and _same_point(w, ma["p"], mb["p"]):
                eqs.append((st, out[1], "LocatedDifferential/Differential.at equality"))
    return vg, ag, eqs


def _ts(t):
    return S.tree_str(t) if isinstance(t, tuple) else str(t)[:300]


def _same_point(w, p, q):
    return p == q or dict((n, v) for n, v in w.scn["points"][p]) == dict((n, v) for n, v in w.scn["points"][q])


def _close(a, b):
    return abs(a - b) <= TOL * max(1.0, abs(a), abs(b))


def group_status(entries):
    """-> (status, detail): ok | discard:<why> | value | definedness"""
    nums, excs = [], []
    for label, o, sid in entries:
        if o[0] == "num":
            v = o[1]
            if not isinstance(v, (int, float)) or isinstance(v, bool):
                return "discard:non-number", None
            v = float(v)
            if math.isnan(v) or math.isinf(v):
                return "discard:overflow", None
            nums.append((v, label))
        else:
            excs.append((o[1], label))
    if any(c in ("OverflowError",) for c, _ in excs):
        return "discard:overflow-exception", None
    classes = sorted({c for c, _ in excs})
    if nums and excs:
        return "definedness", (nums[0], excs[0])
    if len(classes) > 1:
        # e.g. DomainError on one route, CoordinateMissing / arity Exception on another: points in this
        # workload supply all variables of the expression, so only DomainError is a legitimate failure
        return "definedness", ((classes[0], excs[0][1]), (classes[1], excs[-1][1]))
    if nums:
        lo = min(nums)
        hi = max(nums)
        if not _close(lo[0], hi[0]):
            return "value", (lo, hi)
    return "ok", None


def posthoc(run):
    """Returns violations; fills run.known_findings and run.extra_stats."""
    st = {"value_groups": 0, "value_groups_multi_route": 0, "route_outcomes_compared": 0,
          "after_switch_outcomes": 0, "asx_groups": 0, "asx_results_compared": 0, "eq_checked": 0,
          "candidates": 0, "discard": {}}
    run.known_findings = []
    run.extra_stats = {"c06": st}
    viols = []
    vg, ag, eqs = collect(run)
    known = _known()
    for key, entries in vg.items():
        st["value_groups"] += 1
        if len(entries) >= 2:
            st["value_groups_multi_route"] += 1
            st["route_outcomes_compared"] += len(entries)
            st["after_switch_outcomes"] += sum(1 for e in entries if "+switched" in e[0])
        status, detail = group_status(entries)
        if status == "ok":
            continue
        if status.startswith("discard:"):
            why = status[8:]
            st["discard"][why] = st["discard"].get(why, 0) + 1
            continue
        st["candidates"] += 1
        verdict = classify(run, key, status, known)
        if verdict.startswith("known:"):
            run.known_findings.append(verdict[6:])
        elif verdict.startswith("discard:"):
            why = verdict[8:]
            st["discard"][why] = st["discard"].get(why, 0) + 1
        else:
            etree, v, p = key
            sid = max(e[2] for e in entries)
            cls = "routes-disagree-on-value" if status == "value" else "routes-disagree-on-definedness"
            viols.append(Violation("C06", cls, sid,
                                   f"d/d{v} of {S.tree_str(etree)} at point #{p} {run.scn['points'][p]}: "
                                   + "; ".join(f"{lab} -> {o[1]!r}" for lab, o, _ in entries[:12])))
    for key, entries in ag.items():
        st["asx_groups"] += 1
        if len(entries) < 2:
            continue
        st["asx_results_compared"] += len(entries)
        trees = {}
        for label, tree, rev, name, sid in entries:
            trees.setdefault(tree, []).append((label, rev, name, sid))
        if len(trees) == 1:
            continue
        st["candidates"] += 1
        verdict = classify_asx(run, key, entries, known)
        if verdict.startswith("known:"):
            run.known_findings.append(verdict[6:])
        else:
            etree, v = key
            sid = max(e[4] for e in entries)
            viols.append(Violation("C06", "as-expression-results-differ", sid,
                                   f"as_expression() of d/d{v} of {S.tree_str(etree)}: "
                                   + "; ".join(f"{lab} -> {_ts(t)}" for lab, t, _, _, _ in entries[:6])
                                   + f" [{verdict}]"))
    # an early object whose construction (or a late object whose as_expression()) raises something other
    # than an overflow, while the late / numeric side of the same expression works, does not "behave
    # identically": there is then no object to record a disagreeing answer from, so it is checked here
    for step, out in run.records:
        if out[0] != "exc" or out[1] in ("OverflowError", "MemoryError", "OpTimeout", "DomainError", "RunTimeout"):
            continue
        symbolic = (step["k"] == "asx") or (step["k"] == "mk" and step.get("early")
                                            and step["cls"] in ("Partial", "Derivative", "Differential"))
        if not symbolic:
            continue
        if step["k"] == "mk" and step["cls"] == "Derivative" and out[1] == "Exception":
            continue                       # arity: more than one variable, raised early and late alike
        # ... "works" must have been observed: some route returned a number for this very expression in
        # this run (an expression that contains e.g. cos(inf) raises ValueError on every route alike)
        w = run.world
        name = step["e"] if step["k"] == "mk" else step["o"]
        m = metas(w).get(name) if step["k"] == "asx" else None
        et = _etree(w, step["e"]) if step["k"] == "mk" else (m["etree"] if m else None)
        if et is None or not any(k[0] == et and any(o[0] == "num" for _, o, _ in ents) for k, ents in vg.items()):
            continue
        st["candidates"] += 1
        viols.append(Violation("C06", "symbolic-route-raises", step["id"],
                               f"step {step['id']} {step['k']} {engine._step_args(step)} raised {out[1]}: {out[2][:200]} "
                               f"(the late / numeric side of the same expression does not)"))
        break
    for step, val, what in eqs:
        st["eq_checked"] += 1
        if val is not True:
            viols.append(Violation("C06", "route-objects-not-equal", step["id"],
                                   f"{what}: {step['a']} == {step['b']} is {val}"))
    return viols


def asx_group_trees(run, key):
    """repr of every as_expression() result recorded for (expression, variable) in this run."""
    _, ag, _ = collect(run)
    return sorted({repr(e[1]) for e in ag.get(key, [])})


# ------------------------------------------------------------------ candidate classification

def _rerun_group(scn, key):
    r = engine.Run(scn, oracles=(), reach=False).execute()
    vg, ag, _ = collect(r)
    return vg.get(key), r


def classify(run, key, status, known):
    scn = run.scn
    # 1. known finding F3: does the disagreement vanish with the even/even root-of-power rewrite disabled?
    if known_mod.listed(known, "C06", "F3"):
        try:
            restore = CF.disable_even_root_of_even_power()
        except CF.Unavailable:
            restore = None
        effective = False
        if restore is not None:
            try:
                effective = CF.even_root_rule_is_disabled()
                entries, _ = _rerun_group(scn, key) if effective else (None, None)
            finally:
                restore()
            if effective and entries is not None and group_status(entries)[0] in ("ok",):
                return "known:F3"
        # The counterfactual patches a named private method; a refactor (say, reducer lists cached per
        # class) can make it ineffective.  F3 is then recognised by its input pattern and its signature:
        # the expression contains an even root of something that simplifies to an even power, and the
        # routes split exactly into "numeric" versus "symbolic".
        if not effective and _has_even_root_of_even_power(key[0]):
            # counterfactual unavailable or ineffective on this tree: identified by its input pattern alone
            run.extra_stats["c06"]["f3_attributed_by_input_pattern_only"] = \
                run.extra_stats["c06"].get("f3_attributed_by_input_pattern_only", 0) + 1
            return "known:F3"
    # 2. magnitude guard: some intermediate of e (or of a symbolic partial handed out in this run) is so
    #    large or so small at this point that a square or a product of two of them leaves the double range
    #    -- silent under/overflow, outside the property's "no intermediate leaves the double range" proviso
    if _extreme_magnitudes(run, key):
        return "discard:extreme-magnitude"
    # 3. Monte-Carlo arithmetic: is the disagreement within the reach of rounding noise?
    entries0 = run_entries = None
    try:
        base_entries, _ = _rerun_group(scn, key)
        if base_entries is None:
            return "violation"
        s, detail = group_status(base_entries)
        if s == "value":
            disagreement = abs(detail[1][0] - detail[0][0])
        else:
            disagreement = None
        per_record = {}
        flips = False
        for k in range(MCA_SAMPLES):
            try:
                restore = CF.perturb_arithmetic(seed=1234 + k)
            except CF.Unavailable:
                return "violation"
            try:
                ents, _ = _rerun_group(scn, key)
            finally:
                restore()
            if ents is None:
                continue
            for (label, o, sid), (label0, o0, sid0) in zip(ents, base_entries):
                if o[0] != o0[0]:
                    flips = True
                elif o[0] == "num":
                    try:
                        per_record.setdefault(sid, []).append(float(o[1]))
                    except (TypeError, ValueError, OverflowError):
                        pass
        if flips:
            return "discard:definedness-flips-under-1e-12-perturbation"
        if disagreement is not None:
            spread = 0.0
            for vals in per_record.values():
                if len(vals) >= 2:
                    spread = max(spread, max(vals) - min(vals))
            if spread >= disagreement / 10.0:
                return "discard:ill-conditioned"
    except engine.HarnessError:
        raise
    return "violation"


def _has_even_root_of_even_power(etree):
    """F3's input pattern, decided with the library's own simplifier (the entry the test-suite uses)."""
    subs = []
    _subtrees(etree, subs)
    for t in subs:
        if t[0] != "NthRoot":
            continue
        try:
            n = S.num_of(t[1])
            if int(n) % 2 != 0:
                continue
            inner = S.build_tree(t[2])._normalize()
            if type(inner).__name__ == "NthPower" and int(inner.n) % 2 == 0:
                return True
            it = t[2]
            if it[0] == "NthPower" and int(S.num_of(it[1])) % 2 == 0:
                return True
        except Exception:       # noqa: BLE001 - an undefined or overflowing inner: not this pattern
            continue
    return False


def _is_symbolic_route(label):
    return "[early" in label or "+switched" in label or "Differential.at[early]" in label


def _splits_numeric_vs_symbolic(entries):
    def norm(o):
        return ("exc", o[1]) if o[0] == "exc" else ("num",)
    sym = [(lab, o) for lab, o, _ in entries if _is_symbolic_route(lab)]
    num = [(lab, o) for lab, o, _ in entries if not _is_symbolic_route(lab)]
    if not sym or not num:
        return False

    def consistent(part):
        vals = [float(o[1]) for _, o in part if o[0] == "num"]
        kinds = {norm(o) for _, o in part}
        if len(kinds) > 1:
            return False
        return not vals or all(_close(v, vals[0]) for v in vals)
    return consistent(sym) and consistent(num)


def _subtrees(tree, acc):
    if not isinstance(tree, tuple) or tree in acc:
        return
    acc.append(tree)
    op = tree[0]
    if op in ("Variable", "Constant", "Unwalkable"):
        return
    for part in tree[1:]:
        if isinstance(part, tuple) and part and isinstance(part[0], str) and part[0][:1].isupper():
            _subtrees(part, acc)
        elif isinstance(part, tuple):
            for sub in part:
                if isinstance(sub, tuple):
                    _subtrees(sub, acc)


def _extreme(v):
    return v != 0 and (abs(v) > 1e100 or abs(v) < 1e-100)


def _extreme_magnitudes(run, key):
    etree, v, p = key
    coords = run.scn["points"][p]
    trees = [etree]
    _, ag, _ = collect(run)
    for (et, var), entries in ag.items():
        if et == etree and var == v:
            trees.extend(e[1] for e in entries if isinstance(e[1], tuple))
    subs = []
    for t in trees:
        _subtrees(t, subs)
    for t in subs[:400]:
        r = _eval_tree(t, coords)
        if r[0] == "num" and _extreme(r[1]):
            return True
    return False


def _eval_tree(tree, coords):
    try:
        v = S.build_tree(tree).at(S.make_point(coords))
        return ("num", float(v))
    except Exception as e:      # noqa: BLE001
        return ("exc", type(e).__name__)


def classify_asx(run, key, entries, known):
    """F2: early-Differential component as_expression (reverse-mode symbolic) is structurally unequal to the
    forward-mode results although they agree in value."""
    if not known_mod.listed(known, "C06", "F2"):
        return "not-listed"
    rev = [e for e in entries if e[2]]
    fwd = [e for e in entries if not e[2]]
    if not rev:
        return "forward-mode results differ among themselves"
    if len({e[1] for e in fwd}) > 1:
        # forward-mode results must agree among themselves regardless of F2
        return "forward-mode results differ among themselves"
    if len({e[1] for e in rev}) > 1:
        return "early-Differential component results differ among themselves"
    if not fwd:
        return "known:F2"
    ta, tb = rev[0][1], fwd[0][1]
    if not (isinstance(ta, tuple) and isinstance(tb, tuple)):
        return "known:F2"      # degraded mode (structural walker unavailable): attributed by call site only
    names = []
    for t in (ta, tb, key[0]):
        for n in S.tree_vars(t):
            if n not in names:
                names.append(n)
    probes = [list(p) for p in run.scn["points"]]
    for j, base in enumerate((0.5, 1.25, 2.0, 0.8, 3.0)):
        probes.append([[n, base + 0.37 * i + 0.11 * j] for i, n in enumerate(names)])
    both = 0
    for coords in probes:
        a, b = _eval_tree(ta, coords), _eval_tree(tb, coords)
        if a[0] == "num" and b[0] == "num":
            if math.isnan(a[1]) or math.isnan(b[1]) or math.isinf(a[1]) or math.isinf(b[1]):
                continue
            both += 1
            if abs(a[1] - b[1]) > 1e-6 * max(1.0, abs(a[1]), abs(b[1])):
                # rounding-sensitive?  be conservative: only a gross disagreement (relative to the largest
                # intermediate of either expression at this point) is a new violation
                subs = []
                _subtrees(ta, subs)
                _subtrees(tb, subs)
                scale = 1.0
                for t in subs[:400]:
                    r = _eval_tree(t, coords)
                    if r[0] == "num" and r[1] == r[1] and abs(r[1]) != float("inf"):
                        scale = max(scale, abs(r[1]))
                if _extreme(scale):
                    continue
                if abs(a[1] - b[1]) > 1e-3 * max(scale, abs(a[1]), abs(b[1])):
                    return f"values differ too: {a[1]!r} vs {b[1]!r} at {coords}"
    return "known:F2"
