"""opsim engine: executes one scenario (world + points + interleaved client steps) on live,
shared, long-lived objects and records the history; runs the inline oracles.

Scenario (plain JSON)::

    {"nodes": [...node table...],
     "points": [[["x", 1.0], ["t1", -1.0]], ...],          # ordered coordinate pairs
     "steps":  [{"id": 0, "c": 1, "k": "at", "o": "n7", "p": 2}, ...]}   # order == schedule

Objects are named: "n<i>" = node i of the table, "s<id>" = object returned by step <id>.
A step whose operand is unbound (its creator was dropped by the shrinker or raised) is skipped.

Step kinds (all public API, except "norm" = Expression._normalize, which the test-suite itself uses):
    at      o p|num          Expression.at / Partial.at / Derivative.at     -> number
    dat     o p              Differential.at(point)                         -> LocatedDifferential
    mk      cls e [v vobj early p]   Partial / Derivative / Differential / LocatedDifferential
    comp    o v vobj         Differential.component(v)                      -> Partial
    compat  o v vobj p       Differential.component_at(v, point)            -> number
    lcomp   o v vobj         LocatedDifferential.component(v)               -> number
    asx     o                Partial/Derivative.as_expression()             -> Expression
    build   op kids [n base via]     constructor or operator over pooled expressions -> Expression
    norm    o                Expression._normalize()                        -> Expression
    eq      a b              a == b                                         -> bool
    peq     p twin           Point p ==/hash-equal to the same point spelled in sorted order -> str
    tat     op kids p|num    temporary expression over pooled nodes, .at(...), dropped             -> number
    tpat    e v p            temporary Partial(e, v).at(point), dropped                            -> number
    hash    o                hash(o) == hash(fresh equal copy)              -> bool
    repr    o                repr(o)                                        -> str
"""
from __future__ import annotations
import hashlib
import logging
import math
import os
import signal
import threading
import zlib

from . import lib
from . import spec as S

E, P, D, F, L = "E", "P", "D", "F", "L"


class HarnessError(Exception):
    pass


class OpTimeout(Exception):
    """A single library operation (or one round of snapshot walking) exceeded the per-operation
    watchdog.  On the unchanged tree the slowest operation (a give-up normalisation) takes about a
    second; the watchdog only fires when a defect makes an operation run away (e.g. a child list that
    grows exponentially after being edited in place).  It is an outcome like any exception and is
    compared with what the fresh replica does; a violation that involves a timeout is confirmed by a
    second execution before it is reported (runner.execute)."""


OP_DEADLINE_S = float(os.environ.get("VERIF_OP_DEADLINE_S", "30"))


class RunTimeout(BaseException):
    """The whole simulated run (including post-hoc classification) exceeded its watchdog.  Derives
    from BaseException so that it is never mistaken for a library outcome."""


RUN_DEADLINE_S = float(os.environ.get("VERIF_RUN_DEADLINE_S", "240"))


class deadline:
    """Nestable SIGALRM watchdog (main thread only).  An inner deadline never extends an outer one."""

    def __init__(self, seconds=None, exc=OpTimeout):
        self.seconds = OP_DEADLINE_S if seconds is None else seconds
        self.exc = exc

    def _fire(self, signum, frame):
        import time as _t
        elapsed = _t.monotonic() - self.t0
        if self.outer_remaining and elapsed >= self.outer_remaining - 0.01 and callable(self.prev_handler):
            self.prev_handler(signum, frame)       # the enclosing deadline expired first
            return
        raise self.exc(f"exceeded {self.seconds:.0f}s")

    def __enter__(self):
        import time as _t
        self.active = threading.current_thread() is threading.main_thread()
        if self.active:
            self.t0 = _t.monotonic()
            self.outer_remaining, _ = signal.getitimer(signal.ITIMER_REAL)
            self.prev_handler = signal.signal(signal.SIGALRM, self._fire)
            arm = self.seconds if not self.outer_remaining else min(self.seconds, self.outer_remaining)
            signal.setitimer(signal.ITIMER_REAL, arm)
        return self

    def __exit__(self, *exc):
        import time as _t
        if self.active:
            signal.setitimer(signal.ITIMER_REAL, 0)
            signal.signal(signal.SIGALRM, self.prev_handler)
            if self.outer_remaining:
                left = self.outer_remaining - (_t.monotonic() - self.t0)
                signal.setitimer(signal.ITIMER_REAL, max(left, 0.001))
        return False


# --------------------------------------------------------------------------- outcomes

def _exc_outcome(e):
    return ("exc", type(e).__name__, str(e))


def outcome_str(o):
    """Canonical string of an outcome for event logs / digests (no messages, no Point spelling)."""
    k = o[0]
    if k == "num":
        v = o[1]
        if isinstance(v, (int, float)) and not isinstance(v, bool):
            try:
                return "num:" + float(v).hex()
            except OverflowError:
                return "num:big"
        return "num?:" + repr(v)
    if k == "exc":
        return "exc:" + o[1]
    if k == "bool":
        return "bool:" + str(o[1])
    if k == "str":
        return "str:" + o[1]
    if k == "obj":
        return "obj:" + o[1] + ":" + hashlib.sha256(repr(o[2]).encode()).hexdigest()[:16]
    if k == "skip":
        return "skip"
    return repr(o)


def _num_equal(a, b):
    """Bit-for-bit on the float value (so 0.0 and -0.0, or results one ulp apart, differ; int 0 and
    float 0.0 do not).  Both sides execute the same floating-point operations in the same order, so a
    correct library gives identical bits whatever happened before."""
    try:
        fa, fb = float(a), float(b)
    except (TypeError, ValueError, OverflowError):
        return a == b
    if math.isnan(fa) and math.isnan(fb):
        return True
    return fa.hex() == fb.hex()


def compare_outcomes(live, ref):
    """None if they agree, else a short reason.  Exact: same arithmetic on both sides."""
    if live[0] != ref[0]:
        return f"kind {live[0]} vs {ref[0]}"
    k = live[0]
    if k == "num":
        return None if _num_equal(live[1], ref[1]) else f"value {live[1]!r} vs {ref[1]!r}"
    if k == "exc":
        return None if live[1] == ref[1] else f"exception {live[1]} vs {ref[1]}"
    if k in ("bool", "str"):
        return None if live[1] == ref[1] else f"{live[1]!r} vs {ref[1]!r}"
    if k == "obj":
        if live[1] != ref[1]:
            return f"type {live[1]} vs {ref[1]}"
        if live[2] != ref[2]:
            return f"object {live[2]!r} vs {ref[2]!r}"
        return None
    return None


# --------------------------------------------------------------------------- world

class GiveUpCounter(logging.Handler):
    def __init__(self):
        super().__init__(level=logging.WARNING)
        self.count = 0

    def emit(self, record):
        try:
            if "Unable to fully reduce" in record.getMessage():
                self.count += 1
        except Exception:
            pass


GIVEUP = GiveUpCounter()
# logging.warning() on a root logger without handlers would call basicConfig() and print to
# stderr; with this handler installed the library's give-up warning is counted and nothing is printed.
logging.getLogger().addHandler(GIVEUP)


def fresh_str(name):
    """An equal but distinct str object (multi-character names; CPython shares 1-character strings)."""
    return "".join(list(name))


def variable_arg(name, as_object, fresh=False):
    if fresh:
        name = fresh_str(name)
    return lib.EXPR_CLASSES["Variable"](name) if as_object else name


def describe(obj, typ, var_names):
    """Observable description of a returned object (used in outcome comparison)."""
    if typ == E:
        return (S.tree_of(obj), repr(obj))
    orig = getattr(obj, "_original_expression", None)
    otree = S.tree_of(orig) if orig is not None else None
    if typ == L:
        comps = tuple((v, _safe_num(lambda v=v: obj.component(v))) for v in var_names)
        return (_strip_point(repr(obj)), otree, comps)
    return (repr(obj), otree)


def _walk_or_none(walker, obj, stats):
    """Degraded mode: if a refactor removed the private attribute names the structural walker reads,
    structural comparisons are skipped (repr / == / evaluation comparisons remain) and the fact is
    counted in the evidence instead of raising an alarm."""
    try:
        return walker(obj)
    except S.WalkerUnavailable:
        stats["walker_unavailable"] = stats.get("walker_unavailable", 0) + 1
        return None


def safe_describe(obj, typ, var_names):
    try:
        return describe(obj, typ, var_names)
    except S.WalkerUnavailable:
        return (_strip_point(repr(obj)),)
    except (S.Cyclic, RecursionError) as e:
        return ("pathological-structure", type(e).__name__)


def _strip_point(r):
    # LocatedDifferential's repr echoes the Point's keyword spelling; keep the expression part only
    i = r.rfind(", Point(")
    return r[:i] if i >= 0 else r


def _safe_num(f):
    try:
        v = f()
        return ("num", float(v).hex() if isinstance(v, (int, float)) else repr(v))
    except Exception as e:      # noqa: BLE001
        return ("exc", type(e).__name__)


SIZE_CAP = 400        # expanded (tree) size above which a returned expression is not pooled for further use
HEAVY_CAP = 60        # symbolic work (as_expression, normalise, early construction) only on expressions up to this size


def expanded_size(obj, memo=None):
    """Tree-expanded node count of a live expression, computed on the DAG (memo by object identity)."""
    if memo is None:
        memo = {}
    key = id(obj)
    if key in memo:
        return memo[key]
    memo[key] = 10 ** 9           # in progress: a cycle counts as "too big"
    try:
        kids = S.children_of(obj)
    except AttributeError:
        kids = []
    total = 1
    for k in kids:
        total += expanded_size(k, memo)
        if total > 10 ** 9:
            break
    memo[key] = total
    return total


POW_CHAIN_CAP = 10 ** 5


def pow_chain(obj, memo=None):
    """Largest product of NthPower / NthRoot parameters along a root-to-leaf path.  The library
    multiplies nested integer powers (NthPower(NthPower(u, m), n) -> NthPower(u, m*n)) and computes
    x ** n exactly on int leaves, so cycles of simplify -> re-embed -> simplify would have the
    simulator wait for million-digit integers; pooled expressions stay below POW_CHAIN_CAP."""
    if memo is None:
        memo = {}
    key = id(obj)
    if key in memo:
        return memo[key]
    memo[key] = POW_CHAIN_CAP + 1  # in progress: a cycle counts as "too big"
    best = 1
    try:
        for k in S.children_of(obj):
            c = pow_chain(k, memo)
            if c > best:
                best = c
        if type(obj).__name__ in ("NthPower", "NthRoot"):
            n = getattr(obj, "_parameter", 1)
            if isinstance(n, int) and n > 1:
                best *= n
    except AttributeError:
        pass
    memo[key] = best
    return best


class World:
    """Live objects of one run: every node built once (sharing == spec sharing)."""

    def __init__(self, scn):
        self.scn = scn
        self.nodes = scn["nodes"]
        self.objs = {}
        self.types = {}
        self.creator = {}
        self.switched = {}
        self._tree_memo = {}
        live = [None] * len(self.nodes)
        # "creation_order" (optional) is any topological order of the table: the structure is the
        # same, only the order in which the objects come into existence differs (C18 variation);
        # "junk" allocations in between also move object addresses.
        order = scn.get("creation_order") or range(len(self.nodes))
        junk = scn.get("junk")
        self._junk = []
        for j, i in enumerate(order):
            node = self.nodes[i]
            kids = [live[k] for k in node.get("kids", ())]
            if any(k is None for k in kids):
                raise HarnessError("creation_order is not topological")
            if junk:
                self._junk.append([object() for _ in range(junk[j % len(junk)])])
            if scn.get("fresh_names") and node["op"] == "Variable":
                node = dict(node, name=fresh_str(node["name"]))
            live[i] = S.node_construct(node, kids)
        for i, obj in enumerate(live):
            if obj is None:
                raise HarnessError("creation_order does not cover the table")
            self.objs[f"n{i}"] = obj
            self.types[f"n{i}"] = E
        self.node_objs = live
        self.esize = {}
        sizes = []
        for i, node in enumerate(self.nodes):
            sizes.append(1 + sum(sizes[k] for k in node.get("kids", ())))
            self.esize[f"n{i}"] = sizes[i]
        self.points = [S.make_point(c) for c in scn["points"]]
        self.var_names = scn.get("vars") or self._collect_vars()

    def _collect_vars(self):
        acc = []
        for node in self.nodes:
            if node["op"] == "Variable" and node["name"] not in acc:
                acc.append(node["name"])
        return acc

    def node_tree(self, i):
        return S.node_tree(self.nodes, i, self._tree_memo)

    def fresh_point(self, p):
        return S.make_point(self.scn["points"][p])


# --------------------------------------------------------------------------- op execution

def _operands(step):
    k = step["k"]
    if k in ("at", "dat", "comp", "compat", "lcomp", "asx", "norm", "hash", "repr"):
        return [step["o"]]
    if k == "mk":
        return [step["e"]]
    if k == "build":
        return list(step["kids"])
    if k == "eq":
        return [step["a"], step["b"]]
    if k == "peq":
        return []
    if k == "tat":
        return list(step["kids"])
    if k == "tpat":
        return [step["e"]]
    raise HarnessError(f"unknown step kind {k}")


RESULT_TYPE = {"dat": L, "comp": P, "asx": E, "build": E, "norm": E}


def result_type(step):
    k = step["k"]
    if k == "mk":
        return {"Partial": P, "Derivative": D, "Differential": F, "LocatedDifferential": L}[step["cls"]]
    return RESULT_TYPE.get(k)


def apply_op(step, get, point_of):
    """Perform the step's API call.  get(name) -> operand object; point_of(idx) -> Point.
    Operands are resolved *outside* the try block: a harness failure while building a replica
    must never be mistaken for a library outcome.
    Returns (outcome_without_description, returned_object_or_None)."""
    k = step["k"]
    ops = [get(n) for n in _operands(step)]
    pt = point_of(step["p"]) if "p" in step else None
    try:
        with deadline():
            return _call(step, k, ops, pt)
    except HarnessError:
        raise
    except Exception as e:      # noqa: BLE001 - every library exception is an outcome
        return _exc_outcome(e), None


def _call(step, k, ops, pt):
    if True:
        if k == "at":
            return ("num", ops[0].at(step["num"] if "num" in step else pt)), None
        if k == "dat":
            return None, ops[0].at(pt)
        if k == "mk":
            cls = step["cls"]
            e = ops[0]
            if cls == "Partial":
                return None, lib.Partial(e, variable_arg(step["v"], step.get("vobj", False), step.get("vfresh", False)),
                                         compute_early=step.get("early", False))
            if cls == "Derivative":
                return None, lib.Derivative(e, compute_early=step.get("early", False))
            if cls == "Differential":
                return None, lib.Differential(e, compute_early=step.get("early", False))
            if cls == "LocatedDifferential":
                return None, lib.LocatedDifferential(e, pt)
            raise HarnessError(cls)
        if k == "comp":
            return None, ops[0].component(variable_arg(step["v"], step.get("vobj", False), step.get("vfresh", False)))
        if k == "compat":
            v = variable_arg(step["v"], step.get("vobj", False), step.get("vfresh", False))
            return ("num", ops[0].component_at(v, pt)), None
        if k == "lcomp":
            return ("num", ops[0].component(variable_arg(step["v"], step.get("vobj", False), step.get("vfresh", False)))), None
        if k == "asx":
            return None, ops[0].as_expression()
        if k == "norm":
            return None, ops[0]._normalize()
        if k == "build":
            return None, build_expr(step, ops)
        if k == "eq":
            return ("bool", bool(ops[0] == ops[1])), None
        if k == "repr":
            return ("str", _strip_point(repr(ops[0]))), None
        if k == "hash":
            return ("num", hash(ops[0])), None
        if k == "tat":
            # a TEMPORARY root built over pooled nodes, evaluated and dropped at once (the usual way such
            # a library is used inside loops and helpers): object life-times and address reuse are history too
            return ("num", build_expr(step, ops).at(step["num"] if "num" in step else pt)), None
        if k == "tpat":
            tmp = lib.Partial(ops[0], variable_arg(step["v"], step.get("vobj", False), step.get("vfresh", False)),
                              compute_early=step.get("early", False))
            return ("num", tmp.at(pt)), None
        if k == "peq":
            # the pooled Point (spelled as the caller wrote it) against a twin spelled in sorted order
            twin = S.make_point(step["twin"])
            return ("str", f"{pt == twin},{twin == pt},{hash(pt) == hash(twin)}"), None
    raise HarnessError(f"unknown step kind {k}")


def build_expr(step, kids):
    op = step["op"]
    if step.get("via") == "oper":
        if op == "Add":
            return kids[0] + kids[1]
        if op == "Minus":
            return kids[0] - kids[1]
        if op == "Multiply":
            return kids[0] * kids[1]
        if op == "Divide":
            return kids[0] / kids[1]
        if op == "Power":
            return kids[0] ** kids[1]
        if op == "Negation":
            return -kids[0]
        if op == "NthPower":
            return kids[0] ** step["n"]
        raise HarnessError(f"no operator for {op}")
    return S.node_construct(step, kids)


# --------------------------------------------------------------------------- the run

class Violation:
    def __init__(self, prop, oracle, step_id, detail, f4_probe=None):
        self.prop = prop
        self.oracle = oracle          # violation class, e.g. "replica-mismatch"
        self.step_id = step_id
        self.detail = detail
        # what the give-up counterfactual (known finding F4) has to look at: the digest(s) of the
        # reference-side outcome under the shipped step budget
        self.f4_probe = f4_probe

    def key(self):
        return (self.prop, self.oracle)

    def to_json(self):
        return {"property": self.prop, "class": self.oracle, "step": self.step_id, "detail": self.detail}


class Run:
    """Executes a scenario.  oracles: subset of {"replica", "snapshot"} run inline;
    the history (self.records) feeds the post-hoc oracles (routes, digest)."""

    def __init__(self, scn, oracles=("replica",), stop_at_first=True, reach=True):
        self.scn = scn
        self.oracles = oracles
        self.stop_at_first = stop_at_first
        self.reach = reach
        self.world = None
        self.records = []             # (step, outcome)
        self.log = []                 # event-log lines
        self.violations = []
        self.stats = {
            "ops": 0, "skipped": 0, "failed_ops": 0,
            "fault": {"DOM": 0, "MISS": 0, "ARITY": 0, "OVF": 0, "GIVEUP": 0, "FOLDFAIL": 0, "OTHER": 0},
            "fault_partway": {"DOM": 0, "MISS": 0, "OVF": 0},
            "probe": {"stale-other-point": 0, "half-written": 0, "foreign-cached": 0,
                      "switched-late": 0, "absent-var-early": 0, "shared-result-embedded": 0,
                      "retry-after-failure": 0},
            "compared": 0, "bit_notes": 0, "msg_notes": 0,
            "snapshot_checks": 0,
        }
        self._fresh_tree = {}         # name -> tree of its history-free re-derivation (asx / norm results)
        self.step_info = {}           # step id -> run-time facts (life-cycle state of the target at that time)
        self.sigs = []                # state signature after each step (ints)
        self.trans = []               # (sig_before, kind, outcome-kind)
        self.snap = {}                # name -> snapshot (C10)
        self._memo_point = {}         # node index -> point index at which its memo was written
        self._memo_client = {}        # node index -> client whose operation wrote the memo
        self._last_failed_on = set()  # names whose last op failed

    # ---- helpers
    def _bind(self, step, obj, typ):
        name = f"s{step['id']}"
        w = self.world
        w.objs[name] = obj
        w.types[name] = typ
        w.creator[name] = step
        if typ == E:
            w.esize[name] = expanded_size(obj)
        else:
            src = step.get("e") or step.get("o")
            w.esize[name] = w.esize.get(src, 1)
        if typ in (P, D):
            w.switched[name] = False
        return name

    def _too_big(self, step, ops):
        """Deterministic size guards: keep the harness's own tree walks (and the library's unmemoised
        forward-mode traversals) away from exponentially large expansions of small DAGs."""
        w = self.world
        k = step["k"]
        size_cap = self.scn.get("size_cap", SIZE_CAP)
        if k in ("build", "tat"):
            return 1 + sum(w.esize[n] for n in ops) > size_cap
        heavy = k in ("asx", "norm") or (k == "mk" and step.get("early") and step["cls"] != "LocatedDifferential")
        if heavy and max(w.esize[n] for n in ops) > self.scn.get("heavy_cap", HEAVY_CAP):
            return True
        return False

    def _fresh_node(self, i, cache):
        """Fresh copy of the sub-DAG rooted at table node i.  Sharing *inside* the copied object is
        preserved (within one replica construction every table node maps to one fresh object), so the
        copy differs from the live object only by having no history and no sharing with live objects."""
        key = ("node", i)
        obj = cache.get(key)
        if obj is None:
            node = self.world.nodes[i]
            obj = S.node_construct(node, [self._fresh_node(k, cache) for k in node.get("kids", ())])
            cache[key] = obj
        return obj

    def replica(self, name, cache, mode="recipe"):
        """Fresh, never-used copy of a pooled object.
        mode "recipe": re-derive from the recorded provenance (C09);
        mode "snapshot": expressions come from the creation-time structural snapshot (C10)."""
        if name in cache:
            return cache[name]
        w = self.world
        typ = w.types[name]
        if mode in ("snapshot", "snapshot-late") and typ == E and name[0] != "n" and self.snap[name]["table"] is None:
            raise TwinUnavailable(name)      # degraded mode: no creation-time structure to build a twin from
        if mode in ("snapshot", "snapshot-late") and typ == E and self.snap[name]["table"] is not None:
            obj = S.build_table(*self.snap[name]["table"])
        elif name[0] == "n":
            obj = self._fresh_node(int(name[1:]), cache)
        elif name in self._fresh_tree:
            # an expression is fully described by its tree: re-deriving it from fresh copies once
            # (history-free by construction) and rebuilding that tree is the same fresh object, cheaper
            obj = S.build_tree(self._fresh_tree[name])
        else:
            st = w.creator[name]
            st_eff = st
            if mode == "snapshot-late":
                # a twin for ==/hash purposes: equality of derivative objects ignores compute_early, so the
                # twin is built late (no simplification work); expressions still come from the snapshot
                if st.get("early"):
                    st_eff = dict(st, early=False)
            out, obj = apply_op(st_eff, lambda n: self.replica(n, cache, mode), w.fresh_point)
            if obj is None:
                raise ReplicaDiverged(name, out)
            if w.switched.get(name) and mode != "snapshot-late":
                obj.as_expression()
            if typ == E and st["k"] in ("asx", "norm") and mode == "recipe":
                try:
                    self._fresh_tree[name] = S.tree_of(obj)
                except S.WalkerUnavailable:
                    pass
        cache[name] = obj
        return obj

    # ---- reach measures (read-only peeks at memo fields; degrade silently if absent)
    def _memo_bits(self):
        bits = 0
        for i, o in enumerate(self.world.node_objs):
            v = getattr(o, "_value", None)
            if v is not None:
                bits |= 1 << (3 * i)
            if getattr(o, "_is_fully_reduced", False):
                bits |= 1 << (3 * i + 1)
            if getattr(o, "_evaluation_failed", False):
                bits |= 1 << (3 * i + 2)
        life = 0
        for j, (n, sw) in enumerate(self.world.switched.items()):
            if sw:
                life |= 1 << j
        return hash((bits, life))

    def _subtree_indices(self, name):
        if name[0] != "n":
            return []
        seen = []
        stack = [int(name[1:])]
        mark = set()
        while stack:
            i = stack.pop()
            if i in mark:
                continue
            mark.add(i)
            seen.append(i)
            stack.extend(self.world.nodes[i].get("kids", ()))
        return seen

    def _root_expr_name(self, step):
        """Name of the user expression whose tree an evaluation-like step traverses (if a table node)."""
        k = step["k"]
        name = step.get("o") or step.get("e")
        w = self.world
        hops = 0
        while name is not None and name in w.types and w.types[name] != E and hops < 6:
            c = w.creator.get(name)
            if c is None:
                return None
            name = c.get("e") or c.get("o")
            hops += 1
        return name if (name in w.types and w.types[name] == E) else None

    def _pre_probes(self, step):
        if not self.reach:
            return
        if not _evaluates_at_point(step):
            return
        root = self._root_expr_name(step)
        if root is None or root[0] != "n":
            return
        p = _point_token(step)
        objs = self.world.node_objs
        nodes = self.world.nodes
        idx = self._subtree_indices(root)
        pr = self.stats["probe"]
        stale = half = foreign = False
        c = step.get("c", 0)
        for i in idx:
            o = objs[i]
            has = getattr(o, "_value", None) is not None
            if has and p is not None and self._memo_point.get(i, p) != p:
                stale = True
            if has and self._memo_client.get(i, c) != c:
                foreign = True
            if not has and any(getattr(objs[kid], "_value", None) is not None for kid in nodes[i].get("kids", ())):
                half = True
        if stale:
            pr["stale-other-point"] += 1
        if half:
            pr["half-written"] += 1
        if foreign:
            pr["foreign-cached"] += 1
        if root in self._last_failed_on:
            pr["retry-after-failure"] += 1

    def _post_bookkeeping(self, step, outcome, before_bits):
        w = self.world
        st = self.stats
        k = step["k"]
        failed = outcome[0] == "exc"
        if failed:
            st["failed_ops"] += 1
            cls = outcome[1]
            kind = {"DomainError": "DOM", "CoordinateMissing": "MISS", "OverflowError": "OVF",
                    "Exception": "ARITY"}.get(cls, "OTHER")
            st["fault"][kind] += 1
        root = self._root_expr_name(step) if k in ("at", "dat", "compat", "mk", "comp", "lcomp", "asx", "norm") else None
        if root is not None:
            if failed:
                self._last_failed_on.add(root)
            else:
                self._last_failed_on.discard(root)
        if self.reach and root is not None and root[0] == "n":
            objs = w.node_objs
            p = _point_token(step)
            any_memo = False
            for i in self._subtree_indices(root):
                if getattr(objs[i], "_value", None) is not None:
                    any_memo = True
                    if _evaluates_at_point(step):
                        # memo (re)written by this traversal
                        self._memo_point[i] = p
                        self._memo_client[i] = step.get("c", 0)
            if failed and any_memo and kind in st["fault_partway"]:
                st["fault_partway"][kind] += 1

    # ---- C10 snapshots
    def _take_snapshot(self, name):
        w = self.world
        obj = w.objs[name]
        typ = w.types[name]
        snap = {"type": typ, "repr": repr(obj)}
        if typ == E:
            snap["tree"] = _walk_or_none(S.tree_of, obj, self.stats)
            # structure *with* its internal sharing, for twins
            snap["table"] = _walk_or_none(S.table_of, obj, self.stats)
        else:
            orig = getattr(obj, "_original_expression", None)
            snap["otree"] = _walk_or_none(S.tree_of, orig, self.stats) if orig is not None else None
            snap["var"] = getattr(obj, "_variable_name", None)
            if typ == L:
                snap["comps"] = tuple((v, _safe_num(lambda v=v: obj.component(v))) for v in w.var_names)
        self.snap[name] = snap

    def _snapshot_check_all(self, step):
        """After every operation: every pooled object still equals / prints as its former self."""
        w = self.world
        try:
            with deadline():
                return self._snapshot_check_all_inner(step)
        except OpTimeout as e:
            return self._viol("C10", "structure-became-unwalkable", step,
                              f"walking / printing the pooled objects no longer finishes: OpTimeout: {e}")
        except MemoryError as e:
            return self._viol("C10", "structure-became-unwalkable", step, "MemoryError while printing pooled objects")
        except (S.Cyclic, RecursionError) as e:
            return self._viol("C10", "structure-became-cyclic", step,
                              f"a pooled object can no longer be walked / printed: {type(e).__name__}: {e}")

    def _snapshot_check_all_inner(self, step):
        w = self.world
        for name, snap in self.snap.items():
            obj = w.objs[name]
            typ = snap["type"]
            self.stats["snapshot_checks"] += 1
            r = repr(obj)
            if r != snap["repr"]:
                return self._viol("C10", "repr-changed", step, f"{name}: repr {snap['repr']!r} -> {r!r}")
            if typ == E:
                t = _walk_or_none(S.tree_of, obj, self.stats)
                if t != snap["tree"]:
                    return self._viol("C10", "structure-changed", step,
                                      f"{name}: {S.tree_str(snap['tree'])} -> {S.tree_str(t)}")
            else:
                orig = getattr(obj, "_original_expression", None)
                t = _walk_or_none(S.tree_of, orig, self.stats) if orig is not None else None
                if t != snap["otree"]:
                    return self._viol("C10", "structure-changed", step, f"{name}: held expression changed")
                if getattr(obj, "_variable_name", None) != snap["var"]:
                    return self._viol("C10", "structure-changed", step, f"{name}: variable changed")
                if typ == L:
                    comps = tuple((v, _safe_num(lambda v=v: obj.component(v))) for v in w.var_names)
                    if comps != snap["comps"]:
                        return self._viol("C10", "located-components-changed", step,
                                          f"{name}: {snap['comps']} -> {comps}")
        for i, pt in enumerate(w.points):
            fresh = w.fresh_point(i)
            if not (pt == fresh and fresh == pt) or hash(pt) != hash(fresh) or repr(pt) != repr(fresh):
                return self._viol("C10", "point-changed", step, f"point {i}: {pt!r} vs fresh {fresh!r}")
            coords = getattr(pt, "_coordinates", None)
            if coords is not None and list(coords.items()) != [(c[0], S.coord_value(c[1])) for c in self.scn["points"][i]]:
                return self._viol("C10", "point-changed", step, f"point {i} coordinates changed")
        return None

    def _twin_equality_check(self, step):
        """obj == twin, twin == obj, hash equal -- for every pooled object (C10)."""
        try:
            with deadline():
                return self._twin_equality_check_inner(step)
        except (OpTimeout, MemoryError, S.Cyclic, RecursionError) as e:
            return self._viol("C10", "structure-became-unwalkable", step,
                              f"comparing the pooled objects with fresh twins no longer finishes: {type(e).__name__}")

    def _twin_equality_check_inner(self, step):
        w = self.world
        for name, snap in self.snap.items():
            obj = w.objs[name]
            typ = snap["type"]
            if typ == E and snap["table"] is None:
                continue          # degraded mode (walker unavailable): no structural twin can be built
            if typ == E:
                twin = S.build_table(*snap["table"])
            else:
                try:
                    twin = self.replica(name, {}, mode="snapshot-late")
                except TwinUnavailable:
                    self.stats["walker_unavailable"] = self.stats.get("walker_unavailable", 0) + 1
                    continue
                except ReplicaDiverged:
                    # the cheap (late) twin cannot be built, e.g. the numeric route overflows where the early
                    # object's symbolic route did not: build the twin with the declared configuration
                    try:
                        twin = self.replica(name, {}, mode="snapshot")
                    except ReplicaDiverged as e:
                        return self._viol("C10", "twin-construction-failed", step, f"{name}: {e}")
            try:
                ok = (obj == twin) and (twin == obj) and hash(obj) == hash(twin)
            except Exception as e:      # noqa: BLE001
                return self._viol("C10", "equality-raised", step, f"{name}: {type(e).__name__}: {e}")
            if not ok:
                return self._viol("C10", "not-equal-to-fresh-copy", step, f"{name}: {snap['repr']}")
        return None

    def _viol(self, prop, oracle, step, detail):
        v = Violation(prop, oracle, step["id"] if step else None, detail)
        self.violations.append(v)
        return v

    # ---- main loop
    def execute(self):
        try:
            self.world = w = World(self.scn)
        except Exception as e:      # noqa: BLE001
            raise HarnessError(f"world construction failed: {type(e).__name__}: {e}")
        do_replica = "replica" in self.oracles
        do_snapshot = "snapshot" in self.oracles
        if do_snapshot:
            for name in list(w.objs):
                self._take_snapshot(name)
        giveups_before = GIVEUP.count
        sig = self._memo_bits() if self.reach else 0
        for step in self.scn["steps"]:
            ops = _operands(step)
            if any(n not in w.objs for n in ops) or self._too_big(step, ops):
                self.stats["skipped"] += 1
                self.records.append((step, ("skip",)))
                self.log.append(f"{step['id']}|{step.get('c', 0)}|{step['k']}|skip")
                continue
            self._pre_probes(step)
            if step["k"] == "at" and w.types.get(step["o"]) in (P, D):
                self.step_info[step["id"]] = {"switched": bool(w.switched.get(step["o"]))}
            g0 = GIVEUP.count
            ff0 = self._count_evalfailed() if self.reach else 0
            out, obj = apply_op(step, w.objs.__getitem__, w.points.__getitem__)
            self.stats["ops"] += 1
            typ = result_type(step)
            if obj is not None:
                try:
                    with deadline():
                        out = ("obj", typ, safe_describe(obj, typ, w.var_names))
                        oversized = typ == E and (expanded_size(obj) > self.scn.get("size_cap", SIZE_CAP)
                                                  or pow_chain(obj) > POW_CHAIN_CAP)
                except (OpTimeout, MemoryError) as e:
                    out = ("obj", typ, ("pathological-structure", type(e).__name__))
                    oversized = True
                if oversized:
                    self.stats["oversized_results_not_pooled"] = self.stats.get("oversized_results_not_pooled", 0) + 1
                else:
                    name = self._bind(step, obj, typ)
                    if do_snapshot:
                        try:
                            self._take_snapshot(name)
                        except (S.Cyclic, RecursionError) as e:
                            del w.objs[name]
                            self._viol("C10", "structure-became-cyclic", step,
                                       f"returned object cannot be walked / printed: {type(e).__name__}")
                            if self.stop_at_first:
                                break
            if step["k"] == "asx" and obj is not None and w.types.get(step["o"]) in (P, D):
                if not w.switched[step["o"]]:
                    w.switched[step["o"]] = True
            if self.reach:
                if GIVEUP.count > g0:
                    self.stats["fault"]["GIVEUP"] += GIVEUP.count - g0
                ff1 = self._count_evalfailed()
                if ff1 > ff0:
                    self.stats["fault"]["FOLDFAIL"] += ff1 - ff0
                if step["k"] == "at" and w.types.get(step["o"]) in (P, D) and w.switched.get(step["o"]) \
                        and not w.creator[step["o"]].get("early"):
                    self.stats["probe"]["switched-late"] += 1
                if step["k"] in ("comp", "compat") and w.creator[step["o"]].get("early"):
                    root = self._root_expr_name(step)
                    if root and root[0] == "n" and step["v"] not in S.tree_vars(w.node_tree(int(root[1:]))):
                        self.stats["probe"]["absent-var-early"] += 1
                if step["k"] == "build" and any(
                        n[0] == "s" and w.creator[n]["k"] in ("asx", "norm") for n in step["kids"]):
                    self.stats["probe"]["shared-result-embedded"] += 1
            self._post_bookkeeping(step, out, sig)
            if step["k"] == "hash" and out[0] == "num":
                # hash values are process-specific; the observable is agreement with an equal fresh copy
                try:
                    twin = self.replica(step["o"], {}, mode="recipe")
                    out = ("bool", out[1] == hash(twin))
                except ReplicaDiverged:
                    out = ("bool", False)
            self.records.append((step, out))
            self.log.append(f"{step['id']}|{step.get('c', 0)}|{step['k']}|{_step_args(step)}->{outcome_str(out)}")
            if self.reach:
                new_sig = self._memo_bits()
                okind = out[0] if out[0] != "exc" else out[1]
                self.trans.append(hash((sig, zlib.crc32(step["k"].encode()), zlib.crc32(okind.encode()))))
                sig = new_sig
                self.sigs.append(sig)

            v = None
            if do_replica and step["k"] != "hash":
                v = self._replica_check(step, out)
            if v is None and do_snapshot:
                v = self._snapshot_check_all(step)           # structure + repr of every pooled object: every step
                self._steps_since_twin = getattr(self, "_steps_since_twin", 0) + 1
                if v is None and (self._steps_since_twin >= 4 or obj is not None):
                    # ==, both ways, and hash against freshly built twins: after every step that returned
                    # an object, otherwise every 4th step, and once more at the end of the run
                    self._steps_since_twin = 0
                    v = self._twin_equality_check(step)
                if v is None and step["k"] in ("at", "compat", "lcomp", "dat", "eq"):
                    v = self._replica_check(step, out, mode="snapshot")
            if v is not None and self.stop_at_first:
                break
            if out[0] == "exc" and out[1] in ("OpTimeout", "MemoryError"):
                # the live world may now hold runaway structures: stop this run here
                self.stats["runs_aborted_after_runaway_op"] = self.stats.get("runs_aborted_after_runaway_op", 0) + 1
                break
        else:
            if do_snapshot and not self.violations and self.scn["steps"] and getattr(self, "_steps_since_twin", 0):
                self._twin_equality_check(self.scn["steps"][-1])
        return self

    def _count_evalfailed(self):
        c = 0
        for o in self.world.node_objs:
            if getattr(o, "_evaluation_failed", False):
                c += 1
        return c

    def _replica_check(self, step, live_out, mode="recipe"):
        w = self.world
        cache = {}
        prop = "C09" if mode == "recipe" else "C10"
        try:
            ref_out, ref_obj = apply_op(step, lambda n: self.replica(n, cache, mode), w.fresh_point)
        except TwinUnavailable:
            self.stats["walker_unavailable"] = self.stats.get("walker_unavailable", 0) + 1
            return None
        except ReplicaDiverged as e:
            return self._viol(prop, "replica-construction-diverged", step, str(e))
        if ref_obj is not None:
            typ = result_type(step)
            ref_out = ("obj", typ, safe_describe(ref_obj, typ, w.var_names))
        self.stats["compared"] += 1
        why = compare_outcomes(live_out, ref_out)
        if why is not None:
            oracle = "differs-from-fresh-copy" if mode == "recipe" else "evaluates-unlike-fresh-copy"
            v = self._viol(prop, oracle, step,
                           f"step {step['id']} {step['k']} {_step_args(step)}: live {_short(live_out)} "
                           f"vs fresh {_short(ref_out)} ({why})")
            v.f4_probe = {"kind": "step", "step": step["id"], "ref": outcome_str(ref_out)}
            return v
        if live_out[0] == "num" and isinstance(live_out[1], float) and isinstance(ref_out[1], float):
            if live_out[1].hex() != ref_out[1].hex():
                self.stats["bit_notes"] += 1
        if live_out[0] == "exc" and live_out[2] != ref_out[2]:
            self.stats["msg_notes"] += 1
        return None


def _evaluates_at_point(step):
    k = step["k"]
    return k in ("at", "dat", "compat") or (k == "mk" and step["cls"] == "LocatedDifferential")


def _point_token(step):
    return step["p"] if "p" in step else ("num", step.get("num"))


class TwinUnavailable(Exception):
    """Degraded mode (structural walker unavailable): a twin from the creation-time snapshot cannot be built."""


class ReplicaDiverged(Exception):
    def __init__(self, name, out):
        super().__init__(f"fresh re-derivation of {name} failed with {out}")
        self.name = name
        self.out = out


def _short(o):
    s = repr(o)
    return s if len(s) < 300 else s[:300] + "..."


def _step_args(step):
    parts = []
    for key in ("cls", "op", "via", "o", "e", "a", "b", "kids", "v", "vobj", "early", "p", "num", "n", "base"):
        if key in step:
            val = step[key]
            if isinstance(val, float):
                val = val.hex()
            parts.append(f"{key}={val}")
    return ",".join(parts)


def log_digest(log):
    h = hashlib.sha256()
    for line in log:
        h.update(line.encode())
        h.update(b"\n")
    return h.hexdigest()
