"""False-alarm self-test: behaviour-preserving refactors of the library (applied to a scratch copy
outside /repo and /verif) must pass the 150 tests AND leave every check silent (exit 0, no VIOLATION)."""
from __future__ import annotations
import json
import os
import shutil
import subprocess
import tempfile

VERIF = os.path.dirname(os.path.dirname(os.path.abspath(__file__)))

REFACTORS = {
    "rename_inner": r"grep -rl '_inner\b' src | xargs sed -i 's/\b_inner\b/_operand/g'",
    "rename_value_memo": r"grep -rl '_value\b' src | xargs sed -i 's/\b_value\b/_memo/g'",
    "rename_left_right_inners": r"grep -rlE '_left\b|_right\b|_inners\b' src | xargs sed -i -E 's/\b_left\b/_lhs/g; s/\b_right\b/_rhs/g; s/\b_inners\b/_children/g'",
    "no_memoisation": r"sed -i 's/        if self\._value is not None:/        if False:/' src/smoothmath/_private/base_expression/unary_expression.py src/smoothmath/_private/base_expression/binary_expression.py src/smoothmath/_private/base_expression/n_ary_expression.py",
    "messages_changed": r"grep -rl 'is undefined for' src | xargs sed -i 's/is undefined for/has no value for/g'; sed -i 's/Point has no coordinate for variable/No coordinate for/' src/smoothmath/_private/point.py",
    "fix_nthroot_repr": r"""sed -i '0,/return f"NthPower({self._inner}, n={self.n})"/s//return f"NthRoot({self._inner}, n={self.n})"/' src/smoothmath/_private/expression/nth_root.py""",
    "bigger_step_budget": r"sed -i 's/REDUCTION_STEPS_BOUND = 1000/REDUCTION_STEPS_BOUND = 100000/' src/smoothmath/_private/base_expression/expression.py",
    "giveup_reported_via_warnings_module": r"sed -i 's/^import logging$/import logging, warnings/; s/        logging.warning(f\"Unable to fully reduce within {REDUCTION_STEPS_BOUND} steps\")/        warnings.warn(f\"Unable to fully reduce within {REDUCTION_STEPS_BOUND} steps\")/' src/smoothmath/_private/base_expression/expression.py",
    "frozenset_variable_names": r"sed -i 's/        self._variable_names = variable_names/        self._variable_names = frozenset(variable_names)/' src/smoothmath/_private/base_expression/expression.py",
    "point_copies_kwargs": r"sed -i 's/        self._coordinates = kwargs/        self._coordinates = dict(kwargs)/' src/smoothmath/_private/point.py",
    "multiply_returns_float_zero": r"sed -i 's/            return 0$/            return 0.0/' src/smoothmath/_private/math_functions.py",
}


# substantial behaviour-preserving changes written by independent sub-agents (they were given the four
# property records and asked for a realistic, non-trivial change that KEEPS them true, touching the
# machinery the properties are about): generation-tagged memo instead of the reset walk (R-1), a correct
# per-expression memo of reduced partials (R-2), restructured derivative objects with immutable mappings
# (R-3), renames + __slots__ (R-4), an iterative rewriter with per-class cached reducer lists (R-5),
# try/finally cache hygiene and atomic as_expression() (R-6)
import glob as _glob
for _p in sorted(_glob.glob(os.path.join(VERIF, "refactors", "R-*.patch"))):
    REFACTORS["agent_" + os.path.basename(_p)[:-6]] = f"patch -p1 -s < {_p}"


def sh(cmd, timeout=3600):
    return subprocess.run(cmd, shell=True, capture_output=True, text=True, timeout=timeout)


def main(argv):
    names = [a for a in argv if not a.startswith("--")] or list(REFACTORS)
    runs = {"C06": 20000, "C09": 10000, "C10": 6000, "C18": 600}
    out = []
    ok = True
    for name in names:
        tmp = tempfile.mkdtemp(prefix="refx_", dir="/tmp")
        try:
            sh(f"git -C /repo archive HEAD | tar -x -C {tmp}")
            r = sh(f"cd {tmp} && {REFACTORS[name]}")
            d = sh(f"cd {tmp} && git -C /repo diff --no-index --stat /repo/src {tmp}/src | tail -1")
            t = sh(f"cd {tmp} && PYTHONPATH={tmp}/src:{tmp}/test_helpers /venv/bin/python -m pytest -q -p no:cacheprovider 2>&1 | tail -1")
            res = {"refactor": name, "changed": d.stdout.strip(), "tests": t.stdout.strip(), "checks": {}}
            for prop, n in runs.items():
                c = sh(f"cd {VERIF} && VERIF_REPO={tmp} VERIF_SHRINK_S=10 ./check {prop} --tier quick --no-evidence --runs {n}")
                res["checks"][prop] = c.returncode
                if c.returncode != 0:
                    ok = False
                    res.setdefault("output", {})[prop] = [l[:300] for l in c.stdout.splitlines() if l.startswith(("violation", "VIOLATION", "HARNESS", "  "))][:6]
            out.append(res)
            print(f"{name:32s} {res['changed'][:40]:40s} tests: {res['tests'][:22]:22s} checks: {res['checks']}")
            for p, lines in res.get("output", {}).items():
                for l in lines:
                    print("      " + l)
        finally:
            shutil.rmtree(tmp, ignore_errors=True)
    os.makedirs(os.path.join(VERIF, "evidence"), exist_ok=True)
    with open(os.path.join(VERIF, "evidence", "selftest_refactors.json"), "w") as f:
        json.dump(out, f, indent=1)
    print("refactor self-test", "PASSED (no alarm on any behaviour-preserving refactor)" if ok else "FAILED")
    return 0 if ok else 1
