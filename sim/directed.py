"""Directed scenarios executed on every check: regressions of fixed findings and deterministic
demonstrations of the listed known findings (so the KNOWN-FINDING line is reproducible and
disappears if the defect is ever repaired)."""

_X = {"op": "Variable", "name": "x"}
_Y = {"op": "Variable", "name": "y"}


def _routes(e, v, points, with_derivative):
    steps = []
    sid = 0

    def add(**kw):
        nonlocal sid
        kw["id"] = sid
        kw.setdefault("c", 0)
        steps.append(kw)
        sid += 1
        return f"s{sid - 1}"
    pl = add(k="mk", cls="Partial", e=e, v=v, early=False)
    pe = add(k="mk", cls="Partial", e=e, v=v, early=True)
    fl = add(k="mk", cls="Differential", e=e, early=False)
    fe = add(k="mk", cls="Differential", e=e, early=True)
    cl = add(k="comp", o=fl, v=v)
    ce = add(k="comp", o=fe, v=v, vobj=True)
    objs = [pl, pe, cl, ce]
    if with_derivative:
        objs.append(add(k="mk", cls="Derivative", e=e, early=False))
        objs.append(add(k="mk", cls="Derivative", e=e, early=True))
    for p in range(len(points)):
        for o in objs:
            add(k="at", o=o, p=p)
        add(k="compat", o=fl, v=v, p=p)
        add(k="compat", o=fe, v=v, p=p)
        l1 = add(k="mk", cls="LocatedDifferential", e=e, p=p)
        l2 = add(k="dat", o=fl, p=p)
        l3 = add(k="dat", o=fe, p=p)
        for l in (l1, l2, l3):
            add(k="lcomp", o=l, v=v)
        add(k="eq", a=l1, b=l2)
        add(k="eq", a=l1, b=l3)
    for o in objs:
        add(k="asx", o=o)
    for p in range(len(points)):
        for o in objs:
            add(k="at", o=o, p=p)
    add(k="eq", a=pl, b=cl)
    add(k="eq", a=pl, b=ce)
    return steps


def _scn(nodes, e, v, points, with_derivative=False):
    return {"nodes": nodes, "points": points, "steps": _routes(e, v, points, with_derivative),
            "vars": sorted({n["name"] for n in nodes if n["op"] == "Variable"})}


_F1_NODES = [_X, {"op": "Constant", "value": 1}, {"op": "Logarithm", "base": 2.718281828459045, "kids": [0]},
             {"op": "Power", "kids": [1, 2]},
             {"op": "Multiply"}, {"op": "Power", "kids": [4, 2]},
             {"op": "Constant", "value": 0}, {"op": "Cosine", "kids": [6]}, {"op": "Power", "kids": [7, 2]}]

C06 = [
    {   # F1 (fixed in /repo 6a73eb4): must simply pass now
        "name": f"F1-power-base-one-{tag}",
        "what": f"Power({tag}, Logarithm(x)) at x=-1, 0, 2",
        "scenario": _scn(_F1_NODES, e, "x", [[["x", -1]], [["x", 0]], [["x", 2]]], with_derivative=True),
    }
    for tag, e in (("const1", "n3"), ("emptyproduct", "n5"), ("cos0", "n8"))
] + [
    {
        "name": "F2-early-differential-component-shape",
        "expect_known": "F2",
        "what": ("Differential(x**2 + x*y - y**2, compute_early=True).component(y).as_expression() is structurally "
                 "unequal to the late / Partial result (reverse- vs forward-mode symbolic partial, no canonical order)"),
        "scenario": _scn(
            [_X, _Y, {"op": "NthPower", "n": 2, "kids": [0]}, {"op": "Multiply", "kids": [0, 1]},
             {"op": "NthPower", "n": 2, "kids": [1]}, {"op": "Add", "kids": [2, 3]}, {"op": "Minus", "kids": [5, 4]}],
            "n6", "y", [[["x", 1.5], ["y", -2]], [["x", 0], ["y", 0.5]]]),
    },
    {
        "name": "F3-even-root-of-even-power",
        "expect_known": "F3",
        "what": ("Partial(NthRoot(NthPower(x, 2), 2), x) at x=-1: numeric routes -1.0, symbolic routes (early, or late "
                 "after as_expression()) 1.0 -- the rewrite NthRoot(NthPower(u,even),even) -> NthPower(NthRoot(u,even),even) "
                 "shrinks the domain"),
        "scenario": _scn(
            [_X, {"op": "NthPower", "n": 2, "kids": [0]}, {"op": "NthRoot", "n": 2, "kids": [1]}],
            "n2", "x", [[["x", -1]], [["x", 2]]], with_derivative=True),
    },
]


import json as _json
import os as _os

_DIR = _os.path.join(_os.path.dirname(_os.path.dirname(_os.path.abspath(__file__))), "directed")


def _load(name):
    with open(_os.path.join(_DIR, name)) as f:
        return _json.load(f)


C09 = [_load("F4.json")]
C06 = C06 + [dict(_load("F4.json"), what="in the give-up regime (directed/F4.json, degree-~40 Horner polynomial) the late "
                  "Partial's as_expression() and the early Derivative's as_expression() computed after it are "
                  "structurally unequal (reduction flags left by the first simplification)")]
