"""Command-line driver shared by all properties."""
from __future__ import annotations
import json
import os
import sys
import time

from . import runner
from . import known as known_mod


def main(args, seed):
    prop = args.prop
    if prop == "C18":
        from . import hashsim
        return hashsim.main(args, seed)
    from .plans import PLANS
    if prop not in PLANS:
        print(f"unknown or not-claimed property {prop}; see MANIFEST.json not_applicable")
        return 2
    plan = PLANS[prop]
    if getattr(plan, "uses_pristine", False):
        from . import pristine
        pristine.init_zygote()       # before this process executes any library operation
    print(f"VERIF_SEED={seed} property={prop} tier={args.tier}")
    if args.replay:
        return do_replay(plan, args.replay)
    return do_check(plan, args, seed)


def do_replay(plan, path):
    reproduced, hit, same_step, run = runner.replay_file(plan, path)
    for line in (run.log[-12:] if run is not None else []):
        print("  " + line)
    if reproduced:
        print(f"replayed: {hit[0].to_json()}")
        if not same_step:
            print("note: violation reproduced at a different step than recorded")
        print(f"VIOLATION property={plan.prop} replay={path}")
        return 1
    print("replay did not reproduce a violation on the current tree")
    return 0


def do_check(plan, args, seed):
    t0 = time.time()
    known = known_mod.load()
    violations = []          # (idx, viol_json, scn, tag)
    known_lines = []
    # 1. seeded search (first: the pool's workers are forked while this process is still pristine)
    agg = runner.run_batch(plan, args.tier, seed, n_runs=args.runs, workers=args.workers)
    # 2. directed scenarios: regressions of fixed findings + deterministic demonstration of known findings
    for d in plan.directed():
        run, viol = runner.execute(plan, d["scenario"])
        kf = sorted(set(getattr(run, "known_findings", ())))
        if d.get("expect_known"):
            fid = d["expect_known"]
            if fid in kf and known_mod.listed(known, plan.prop, fid):
                known_lines.append(f"KNOWN-FINDING: property={plan.prop} {fid} {d['what']}")
            elif fid in kf:
                # the defect is present but no longer listed: it is a violation like any other
                pass
            else:
                print(f"note: known finding {fid} no longer reproduces on this tree ({d['name']})")
        if viol:
            violations.append((f"directed-{d['name']}", [v.to_json() for v in viol], d["scenario"], ""))
    for idx, vj, scn in sorted(agg["viols"], key=lambda t: t[0]):
        violations.append((idx, vj, scn, ""))
    for line in known_lines:
        print(line)
    for fid, n in sorted(agg.get("known", {}).items()):
        print(f"known finding {fid}: attributed in {n} random runs")
    st = agg["stats"]
    print(f"runs={agg['runs']} ops={st.get('ops', 0)} failed_ops={st.get('failed_ops', 0)} "
          f"compared={st.get('compared', 0)} distinct_nontrivial={len(agg['digests'])} "
          f"states~{len(agg['sigs']) * plan.sample_mod[args.tier]} wall={agg['wall_s']:.1f}s "
          f"({int(agg['runs'] / max(agg['wall_s'], 1e-9) * 3600)} runs/h)")
    print(f"faults fired: {st.get('fault', {})}  part-way: {st.get('fault_partway', {})}")
    print(f"probes: {st.get('probe', {})}")
    for wline in runner.reach_warnings(st, getattr(plan, "unreached_by_design", ())):
        print(f"REACH-WARNING {wline}")
    rc = 0
    reported = []
    unreproducible = []
    if violations:
        seen_classes = set()
        for idx, vj, scn, tag in violations:
            cls = vj[0]["class"]
            if cls in seen_classes or len(reported) >= 3:
                continue
            seen_classes.add(cls)
            path, doc = runner.minimise_and_write(plan, seed, idx, vj, scn, tag)
            ok = runner.verify_replay_in_fresh_process(plan.prop, path)
            if ok:
                print(f"violation class={cls} run={idx} minimised to {len(doc['scenario']['steps'])} steps / "
                      f"{len(doc['scenario']['nodes'])} nodes; fresh-process replay reproduces")
            else:
                # not reproducible from its scenario alone: does it reproduce after the runs that preceded
                # it in the same (per-chunk) process?  -> context replay file
                os.remove(path)
                path = None
                if isinstance(idx, int):
                    start = (idx // runner.CHUNK) * runner.CHUNK
                    path = runner.write_context_replay(plan, args.tier, seed, start, idx, vj)
                if path is None:
                    unreproducible.append((idx, cls))
                    print(f"note: violation class={cls} run={idx} reproduces neither from its scenario nor in the "
                          f"context of its chunk; not reported")
                    seen_classes.discard(cls)
                    continue
                ctx = json.load(open(path))
                print(f"violation class={cls} run={idx}: reproduces only in the context of runs "
                      f"{ctx['start']}..{idx} executed in one process (process-global state); context replay reproduces")
            print(f"  {doc['expected'].get('detail')}")
            print(f"VIOLATION property={plan.prop} replay={path}")
            reported.append(path)
        if reported:
            rc = 1
        elif unreproducible:
            print("HARNESS-ERROR: violations were observed but none could be reproduced in a fresh process")
            rc = 2
    if not args.no_evidence:
        extra = plan.evidence_extra(agg) if hasattr(plan, "evidence_extra") else None
        runner.write_evidence(plan, args.tier, seed, agg, violations, extra)
    print(f"{'HELD' if rc == 0 else 'VIOLATED'} property={plan.prop} total_wall={time.time() - t0:.1f}s")
    return rc
