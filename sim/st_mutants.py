"""Sensitivity self-test: every catalogued mutant (/verif/mutants/*.patch, written by hand) and every
independently seeded change (/verif/seeded/*/patch.diff, written by sub-agents that saw only the
property text) is applied to a scratch copy of /repo OUTSIDE /repo and /verif; it must (a) pass the
150 tests and (b) be reported by the owning check.  The kill matrix goes to evidence/selftest.json."""
from __future__ import annotations
import glob
import json
import os
import shutil
import subprocess
import tempfile
import time

VERIF = os.path.dirname(os.path.dirname(os.path.abspath(__file__)))


def sh(cmd, timeout=3600):
    return subprocess.run(cmd, shell=True, capture_output=True, text=True, timeout=timeout)


def evaluate(patch, prop, runs=None, demo=None, all_props=False):
    tmp = tempfile.mkdtemp(prefix="mutx_", dir="/tmp")
    res = {"patch": os.path.relpath(patch, VERIF), "property": prop}
    try:
        sh(f"git -C /repo archive HEAD | tar -x -C {tmp}")
        r = sh(f"cd {tmp} && patch -p1 < {patch}")
        if r.returncode != 0:
            res["error"] = "patch does not apply: " + (r.stdout + r.stderr)[-300:]
            return res
        t = sh(f"cd {tmp} && PYTHONPATH={tmp}/src:{tmp}/test_helpers /venv/bin/python -m pytest -q -p no:cacheprovider 2>&1 | tail -1")
        res["tests"] = t.stdout.strip()
        res["tests_pass"] = "150 passed" in t.stdout
        if demo:
            d0 = sh(f"PYTHONPATH=/repo/src /venv/bin/python {demo}")
            d1 = sh(f"PYTHONPATH={tmp}/src /venv/bin/python {demo}")
            res["demo_rc_unchanged"], res["demo_rc_patched"] = d0.returncode, d1.returncode
        props = ["C06", "C09", "C10", "C18"] if all_props else [prop]
        res["checks"] = {}
        for p in props:
            t0 = time.time()
            cmd = f"cd {VERIF} && VERIF_REPO={tmp} VERIF_SHRINK_S=20 ./check {p} --tier quick --no-evidence" + (f" --runs {runs}" if runs else "")
            r = sh(cmd)
            vl = [l for l in r.stdout.splitlines() if l.startswith("violation ")]
            res["checks"][p] = {"rc": r.returncode, "wall_s": round(time.time() - t0, 1),
                                "first": (vl[0][:200] if vl else None)}
        res["killed_by_owner"] = res["checks"][prop]["rc"] == 1
    finally:
        shutil.rmtree(tmp, ignore_errors=True)
    return res


def main(argv):
    all_props = "--all-props" in argv
    only = [a for a in argv if not a.startswith("--")]
    items = []
    for p in sorted(glob.glob(os.path.join(VERIF, "mutants", "*.patch"))):
        items.append((p, os.path.basename(p)[:3].upper(), None))
    for d in sorted(glob.glob(os.path.join(VERIF, "seeded", "*"))):
        pf = os.path.join(d, "patch.diff")
        if os.path.exists(pf):
            meta = json.load(open(os.path.join(d, "meta.json")))
            demo = os.path.join(d, "demo.py")
            items.append((pf, meta["property"], demo if os.path.exists(demo) else None))
    if only:
        items = [it for it in items if any(o in it[0] for o in only)]
    out = []
    for patch, prop, demo in items:
        r = evaluate(patch, prop, demo=demo, all_props=all_props)
        out.append(r)
        print(f"{r['patch']:55s} tests={'pass' if r.get('tests_pass') else 'FAIL'} "
              f"owner {prop} {'KILLED' if r.get('killed_by_owner') else 'MISSED'}  "
              + " ".join(f"{p}:{c['rc']}" for p, c in r.get("checks", {}).items()))
    os.makedirs(os.path.join(VERIF, "evidence"), exist_ok=True)
    path = os.path.join(VERIF, "evidence", "selftest.json")
    if only and os.path.exists(path):
        # a partial run refreshes its own rows and keeps the others
        fresh = {r["patch"] for r in out}
        out = [r for r in json.load(open(path)).get("kill_matrix", []) if r["patch"] not in fresh] + out
        out.sort(key=lambda r: r["patch"])
    with open(path, "w") as f:
        json.dump({"kill_matrix": out, "killed": sum(1 for r in out if r.get("killed_by_owner")), "total": len(out)}, f, indent=1)
    missed = [r["patch"] for r in out if r.get("tests_pass") and not r.get("killed_by_owner")]
    print(f"killed {sum(1 for r in out if r.get('killed_by_owner'))}/{len(out)}; missed: {missed}")
    return 0 if not missed else 1
