"""Seeded scenario generator (swarm style).  One integer decides everything: the only source of
choice is the random.Random handed in; no set iteration, no id()/hash() ordering, no clock."""
from __future__ import annotations
import math

from . import lib

ORD_VARS = ["x", "y", "z", "w", "alpha", "b2", "theta_long_name", "k", "X", "Alpha", "whatever"]
TRIP_VARS = ["t1", "t2", "t3"]
MISS_VARS = ["m1", "m2"]

CONST_POOL = [0, 1, -1, 2, 3, 0.5, -0.5, -2, 1.5, 0.25, 10, 0.1, 2.5, -3, 1.0, 2.0, 0.0, 4, 7, -1.0, -0.0, 10.0]
GRID = [-2, -1, -0.5, 0, 0.5, 1, 2, 3, 0.75, 1.5, 0.3, -1.25, 1.0, 2.0, 0.0, -1.0, 4, 0.125, -0.0, 0.0, 10, 10.0]
BASES_EXP = [math.e, 2, 10, 0.5, 3.0, 1, 2.0]
BASES_LOG = [math.e, 2, 10, 0.5, 3.0, 2.0]
NS = [1, 2, 3, 4, 5, 6, 2.0, 3.0, 2, 2, 3]

INTERNAL_OPS = ["Add", "Multiply", "Minus", "Divide", "Power", "Negation", "Reciprocal",
                "Cosine", "Sine", "NthPower", "NthRoot", "Exponential", "Logarithm"]

STEP_KINDS = ["at", "at_num", "mk_partial", "mk_derivative", "mk_differential", "mk_located",
              "pat", "dat", "comp", "compat", "lcomp", "asx", "build", "norm", "eq", "hash", "repr", "peq",
              "tat", "tpat"]

DEFAULT_WEIGHTS = {
    "at": 10, "at_num": 2, "mk_partial": 4, "mk_derivative": 1.5, "mk_differential": 2.5,
    "mk_located": 3, "pat": 8, "dat": 3, "comp": 2.5, "compat": 3, "lcomp": 2, "asx": 2.5,
    "build": 2.5, "norm": 1.2, "eq": 1, "hash": 0.5, "repr": 0.7, "peq": 0.4,
    "tat": 3, "tpat": 1.5,
}


class Profile:
    """Per-run knobs, drawn from the run's PRNG (swarm testing)."""

    def __init__(self, rng, base=None):
        b = base or {}
        self.const_pool = b.get("const_pool", CONST_POOL)
        self.grid = b.get("grid", GRID)
        self.n_ord = rng.randint(*b.get("n_ord", (1, 4)))
        self.n_trip = rng.choice(b.get("n_trip", [0, 1, 1, 2, 2, 3]))
        self.n_miss = rng.choice(b.get("n_miss", [0, 0, 1, 1, 2]))
        self.n_nodes = rng.randint(*b.get("n_nodes", (5, 34)))
        self.max_depth = rng.randint(*b.get("max_depth", (2, 6)))
        self.max_size = b.get("max_size", 250)
        self.arity = b.get("arity", [0, 1, 2, 2, 2, 3, 3, 4])
        self.share = rng.choice(b.get("share", [0.05, 0.15, 0.3, 0.3, 0.5, 0.7]))
        self.trip_prob = rng.choice(b.get("trip_prob", [0.0, 0.1, 0.2, 0.35]))
        self.group_prob = rng.choice(b.get("group_prob", [0.0, 0.0, 0.1, 0.25]))
        self.dup_prob = rng.choice(b.get("dup_prob", [0.0, 0.1, 0.3]))
        self.clone_prob = rng.choice(b.get("clone_prob", [0.0, 0.05, 0.15]))
        self.twin_prob = rng.choice(b.get("twin_prob", [0.0, 0.2, 0.5]))
        self.mirror_prob = rng.choice(b.get("mirror_prob", [0.0, 0.05, 0.15]))
        self.sweep_prob = rng.choice(b.get("sweep_prob", [0.0, 0.1, 0.25]))
        self.ovf_prob = rng.choice(b.get("ovf_prob", [0.0, 0.0, 0.03, 0.1]))
        self.base_one_prob = rng.choice(b.get("base_one_prob", [0.0, 0.0, 0.05, 0.1]))
        self.ovf_mid = b.get("ovf_mid", True)
        self.poly_prob = rng.choice(b.get("poly_prob", [0.0, 0.05, 0.15]))
        self.perm_points_prob = rng.choice(b.get("perm_points_prob", [0.0, 0.2, 0.4]))
        self.frac_prob = rng.choice(b.get("frac_prob", [0.0, 0.0, 0.1, 0.3]))
        self.affine_prob = rng.choice(b.get("affine_prob", [0.0, 0.05, 0.15]))
        self.fresh_names = rng.random() < b.get("fresh_names_prob", 0.3)
        self.arm_prob = rng.choice(b.get("arm_prob", [0.1, 0.25, 0.25, 0.5]))
        self.miss_prob = rng.choice(b.get("miss_prob", [0.2, 0.4, 0.6]))
        self.n_points = rng.randint(*b.get("n_points", (2, 5)))
        self.n_clients = rng.randint(*b.get("n_clients", (2, 4)))
        self.n_steps = rng.randint(*b.get("n_steps", (6, 30)))
        self.heavy_size = b.get("heavy_size", 45)   # symbolic work only on expressions up to this expanded size
        self.positive_bias = rng.choice(b.get("positive_bias", [0.0, 0.3, 0.6]))
        ops = list(INTERNAL_OPS)
        rng.shuffle(ops)
        keep = rng.randint(b.get("min_ops", 4), len(ops))
        self.ops = ops[:keep]
        w = dict(b.get("weights", DEFAULT_WEIGHTS))
        kinds = [k for k in STEP_KINDS if w.get(k, 0) > 0]
        # disable a random subset of step kinds (never "at")
        for k in kinds:
            if k not in ("at",) and rng.random() < b.get("kind_off_prob", 0.2):
                w[k] = 0
        self.weights = w
        self.early_prob = rng.choice(b.get("early_prob", [0.2, 0.5, 0.8]))
        self.vobj_prob = rng.choice([0.0, 0.3, 0.6])
        self.foreign_prob = rng.choice(b.get("foreign_prob", [0.2, 0.4, 0.7]))


def _const(rng, pr):
    return rng.choice(pr.const_pool)


def _const_value(node, kid_values):
    """Harness-side estimate of the value of a variable-free node (None: undefined / overflowing /
    unknown).  Used for one purpose only: keeping astronomically large *exponents* out of Power nodes --
    the library folds Power(u, C) to NthPower(u, int(C)) and computes x ** n exactly on int values, so a
    variable-free exponent like 1e200 would have the simulator wait for a number with 10^200 digits."""
    try:
        op = node["op"]
        if any(v is None for v in kid_values):
            return None
        k = [float(v) for v in kid_values]
        if op == "Constant":
            return float(node["value"])
        if op == "Add":
            r = sum(k)
        elif op == "Multiply":
            r = 1.0
            for v in k:
                r *= v
        elif op == "Minus":
            r = k[0] - k[1]
        elif op == "Divide":
            r = k[0] / k[1]
        elif op == "Negation":
            r = -k[0]
        elif op == "Reciprocal":
            r = 1.0 / k[0]
        elif op == "Power":
            r = k[0] ** k[1] if k[0] > 0 else None
        elif op == "NthPower":
            r = k[0] ** int(node["n"])
        elif op == "NthRoot":
            n = int(node["n"])
            r = (abs(k[0]) ** (1.0 / n)) * (1 if k[0] > 0 else -1) if (k[0] > 0 or (n % 2 == 1 and k[0] != 0)) else None
        elif op == "Exponential":
            r = float(node["base"]) ** k[0]
        elif op == "Logarithm":
            r = math.log(k[0], float(node["base"])) if k[0] > 0 else None
        elif op == "Cosine":
            r = math.cos(k[0])
        elif op == "Sine":
            r = math.sin(k[0])
        else:
            return None
        if r is None or r != r or abs(r) == float("inf"):
            return None
        return r
    except (OverflowError, ZeroDivisionError, ValueError, TypeError):
        return None


def _bad_exponent(info, k):
    """Exponent position of a Power: a variable-free sub-expression must be small and well defined."""
    if info[k][2]:
        return False
    v = info[k][3]
    return v is None or abs(v) > 100


def gen_world(rng, pr):
    """Node table with sharing.  Returns (nodes, info) with info[i] = (depth, expanded_size, varlist)."""
    ord_vars = ORD_VARS[:]
    rng.shuffle(ord_vars)
    ord_vars = ord_vars[:pr.n_ord]
    trip_vars = TRIP_VARS[:pr.n_trip]
    miss_vars = MISS_VARS[:pr.n_miss]
    nodes, info = [], []
    pr.interesting = []          # ids of nodes built by a special construct (groups, duplicates, mirrors, twins)

    def add(node, kids=()):
        if kids:
            node["kids"] = list(kids)
        depth = 1 + max((info[k][0] for k in kids), default=0)
        size = 1 + sum(info[k][1] for k in kids)
        vs = []
        if node["op"] == "Variable":
            vs = [node["name"]]
        for k in kids:
            for v in info[k][2]:
                if v not in vs:
                    vs.append(v)
        nodes.append(node)
        info.append((depth, size, vs, None if vs else _const_value(node, [info[k][3] for k in kids])))
        return len(nodes) - 1

    var_ids = {}
    for v in ord_vars + trip_vars + miss_vars:
        var_ids[v] = add({"op": "Variable", "name": v})
    for _ in range(rng.randint(1, 3)):
        add({"op": "Constant", "value": _const(rng, pr)})

    def clone(i, memo):
        """Equal-but-distinct copy of the sub-DAG rooted at node i (new table entries)."""
        if i in memo:
            return memo[i]
        node = dict(nodes[i])
        kids = [clone(k, memo) for k in node.pop("kids", [])]
        memo[i] = add(node, kids)
        return memo[i]

    def mirror(i, subst, memo):
        """Copy of the sub-DAG at i with variables renamed by subst and integral constants respelled
        (3 <-> 3.0): the two copies have ==-equal but differently spelled symmetric partials."""
        if i in memo:
            return memo[i]
        node = dict(nodes[i])
        kids = [mirror(k, subst, memo) for k in node.pop("kids", [])]
        if node["op"] == "Variable":
            node["name"] = subst.get(node["name"], node["name"])
        elif node["op"] == "Constant":
            v = node["value"]
            if isinstance(v, int):
                node["value"] = float(v)
            elif isinstance(v, float) and v.is_integer():
                node["value"] = int(v)
        memo[i] = add(node, kids)
        return memo[i]

    ovf_nodes = []
    mid_nodes = []

    def pick_kid():
        r = rng.random()
        n = len(nodes)
        if pr.ovf_prob and rng.random() < pr.ovf_prob:
            # overflow tripwire: a variable-free sub-expression whose value leaves the double range.
            # Evaluation fails part-way with OverflowError, and so does constant folding in the middle
            # of a simplification (as_expression() / early construction raise and must leave no trace).
            if not ovf_nodes or rng.random() < 0.3:
                if rng.random() < 0.6 or not pr.ovf_mid:
                    base_, expo = rng.choice([(math.e, 1000), (10, 1000), (2.0, 2000), (math.e, 800.0), (10, 400.0)])
                    c = add({"op": "Constant", "value": expo})
                    ovf_nodes.append(add({"op": "Exponential", "base": base_}, [c]))
                else:
                    # representable itself, but its square (quotient rule, chain rule) is not
                    kind = rng.random()
                    if kind < 0.5:
                        c = add({"op": "Constant", "value": rng.choice([400, 200.0])})
                        ovf_nodes.append(add({"op": "Exponential", "base": rng.choice([math.e, 10])}, [c]))
                    else:
                        ovf_nodes.append(add({"op": "Constant", "value": rng.choice([1e200, 1e160])}))
                    mid_nodes.append(ovf_nodes[-1])
            pick = rng.choice(ovf_nodes)
            if pick in mid_nodes and ord_vars and rng.random() < 0.6:
                # value fine, derivative not: the quotient rule squares the denominator, so as_expression()
                # / early construction fail with OverflowError while evaluation and numeric partials work --
                # the "failed simplification followed by successful use of the same object" history
                num = var_ids[rng.choice(ord_vars)] if rng.random() < 0.7 else rng.randrange(len(nodes))
                if info[num][0] + 1 <= pr.max_depth:
                    return add({"op": "Divide"}, [num, pick])
            return pick
        if rng.random() < pr.clone_prob:
            cands = [i for i in range(n) if 2 <= info[i][1] <= 12 and info[i][0] >= 2]
            if cands:
                return clone(rng.choice(cands), {})
        if r < pr.share:
            return rng.randrange(n)                       # anything: creates sharing
        if r < pr.share + 0.25:
            return rng.randrange(max(0, n - 4), n)        # recent: grows depth
        if r < pr.share + 0.45:
            return add({"op": "Constant", "value": _const(rng, pr)})
        if r < pr.share + 0.55 and ord_vars:
            return add({"op": "Variable", "name": rng.choice(ord_vars)})   # equal-but-distinct leaf
        return rng.randrange(n)

    attempts = 0
    while len(nodes) < pr.n_nodes and attempts < pr.n_nodes * 6:
        attempts += 1
        special = False
        if trip_vars and rng.random() < pr.trip_prob:
            t = var_ids[rng.choice(trip_vars)]
            form = rng.choice(["Logarithm", "Reciprocal", "NthRoot", "Divide", "Power"])
            if form == "Logarithm":
                cand = ({"op": "Logarithm", "base": rng.choice(BASES_LOG)}, [t])
            elif form == "Reciprocal":
                cand = ({"op": "Reciprocal"}, [t])
            elif form == "NthRoot":
                cand = ({"op": "NthRoot", "n": rng.choice([2, 2, 3, 4])}, [t])
            elif form == "Divide":
                cand = ({"op": "Divide"}, [pick_kid(), t])
            else:
                cand = ({"op": "Power"}, [t, pick_kid()])
        elif rng.random() < pr.poly_prob:
            # distributive shapes: a sum of products of a variable (or small node) with small sums,
            # x*(y+z) + x*(w+1) + ... -- the product / sum rules interact here in ways that isolated
            # random operators rarely produce
            leaves = [var_ids[v] for v in ord_vars + trip_vars] or [0]
            terms = []
            for _ in range(rng.randint(2, 3)):
                left = rng.choice(leaves) if rng.random() < 0.8 else pick_kid()
                summands = [rng.choice(leaves) if rng.random() < 0.75 else add({"op": "Constant", "value": _const(rng, pr)})
                            for _ in range(rng.randint(2, 3))]
                right = add({"op": "Add"}, summands)
                if info[left][0] + 2 > pr.max_depth:
                    left = rng.choice(leaves)
                factors = [left, right] if rng.random() < 0.5 else [right, left]
                if rng.random() < 0.2:
                    factors.append(rng.choice(leaves))
                terms.append(add({"op": "Multiply"}, factors))
            if rng.random() < 0.3:
                terms.append(rng.choice(leaves))
            cand = ({"op": rng.choice(["Add", "Add", "Add", "Minus"])}, terms)
            if cand[0]["op"] == "Minus":
                cand = (cand[0], terms[:2])
            special = True
        elif rng.random() < pr.affine_prob:
            # a function of a linear combination, f(2x + y - 3z): the partials are the same expression up to
            # a small constant factor (and a sign), which is where "equal up to ..." shortcuts go wrong
            vs_ = ord_vars + trip_vars
            if len(vs_) < 2:
                continue
            terms = []
            for v in rng.sample(vs_, rng.randint(2, min(3, len(vs_)))):
                if rng.random() < 0.4:
                    terms.append(var_ids[v])
                else:
                    c = add({"op": "Constant", "value": rng.choice([2, -1, -2, 3, 0.5, 2.0, -2.0])})
                    pair = [c, var_ids[v]] if rng.random() < 0.5 else [var_ids[v], c]
                    terms.append(add({"op": "Multiply"}, pair))
            inner = add({"op": "Add"}, terms)
            outer = rng.choice(["Cosine", "Sine", "Exponential", "Logarithm", "NthPower", "Reciprocal"])
            if outer in lib.UNARY:
                cand = ({"op": outer}, [inner])
            elif outer == "NthPower":
                cand = ({"op": outer, "n": rng.choice([2, 3])}, [inner])
            elif outer == "Exponential":
                cand = ({"op": outer, "base": rng.choice(BASES_EXP)}, [inner])
            else:
                cand = ({"op": outer, "base": rng.choice(BASES_LOG)}, [inner])
            special = True
        elif rng.random() < pr.base_one_prob:
            # Power whose variable-free base evaluates to exactly 1: the library short-cuts this case on
            # its numeric routes (one of its few special branches; defect F1 lived here)
            form = rng.choice(["c1", "c1f", "empty", "cos0", "sq"])
            if form == "c1":
                b1 = add({"op": "Constant", "value": 1})
            elif form == "c1f":
                b1 = add({"op": "Constant", "value": 1.0})
            elif form == "empty":
                b1 = add({"op": "Multiply"})
            elif form == "cos0":
                b1 = add({"op": "Cosine"}, [add({"op": "Constant", "value": 0})])
            else:
                b1 = add({"op": "NthPower", "n": 2}, [add({"op": "Constant", "value": -1})])
            cand = ({"op": "Power"}, [b1, pick_kid()])
            special = True
        elif rng.random() < pr.group_prob:
            # an n-ary node over several parameterised nodes of one class with few distinct
            # parameters: exercises the group-by-key consolidation rules (order-sensitive code)
            form = rng.choice(["Logarithm", "NthPower", "NthRoot", "Exponential", "Negation", "Reciprocal"])
            outer = "Add" if form in ("Logarithm", "Negation") else "Multiply"
            if rng.random() < 0.2:
                outer = "Multiply" if outer == "Add" else "Add"
            params = rng.sample([2, 3, 10, 0.5], 2) if form in ("Logarithm", "Exponential") else rng.sample([2, 3, 4, 5], 2)
            members = []
            for _ in range(rng.randint(2, 4)):
                kid = pick_kid()
                if info[kid][0] + 2 > pr.max_depth:
                    kid = rng.randrange(len(var_ids) + 1)
                if form in ("Logarithm", "Exponential"):
                    members.append(add({"op": form, "base": rng.choice(params)}, [kid]))
                elif form in ("NthPower", "NthRoot"):
                    members.append(add({"op": form, "n": rng.choice(params)}, [kid]))
                else:
                    members.append(add({"op": form}, [kid]))
            if rng.random() < 0.5:
                members.append(pick_kid())
            rng.shuffle(members)
            cand = ({"op": outer}, members)
            special = True
        else:
            op = rng.choice(pr.ops)
            if op in lib.NARY and len(ord_vars) >= 2 and rng.random() < pr.mirror_prob:
                # symmetric pair: T(x) and T(y) with int/float respelled constants, under one sum / product
                cands = [i for i in range(len(nodes)) if 2 <= info[i][1] <= 14 and info[i][2]
                         and info[i][0] + 1 <= pr.max_depth]
                if not cands:
                    continue
                if rng.random() < 0.4:
                    # symmetric linear terms c*x*S and c.0*y*S (S shared, free of x and y): the raw partials
                    # with respect to x and y are ==-equal expressions spelled differently
                    v1, v2 = rng.sample(ord_vars, 2)
                    cv = rng.choice([2, 3, -1, 4, -2, 5])
                    co = [i for i in range(len(nodes)) if info[i][1] <= 8 and v1 not in info[i][2]
                          and v2 not in info[i][2] and info[i][0] + 2 <= pr.max_depth]
                    shared = [rng.choice(co)] if co and rng.random() < 0.7 else []
                    f1 = [add({"op": "Constant", "value": cv}), var_ids[v1]] + shared
                    f2 = [add({"op": "Constant", "value": float(cv)}), var_ids[v2]] + shared
                    ks = [add({"op": "Multiply"}, f1), add({"op": "Multiply"}, f2)]
                    if rng.random() < 0.3:
                        ks.append(pick_kid())
                    rng.shuffle(ks)
                    cand = ({"op": "Add" if rng.random() < 0.8 else op}, ks)
                    special = True
                    node, kids = cand
                    depth = 1 + max((info[k][0] for k in kids), default=0)
                    size = 1 + sum(info[k][1] for k in kids)
                    if depth <= pr.max_depth and size <= pr.max_size:
                        pr.interesting.append(add(node, kids))
                    continue
                t = rng.choice(cands)
                v1 = rng.choice(info[t][2])
                others = [v for v in ord_vars if v != v1]
                if not others:
                    continue
                if rng.random() < 0.6 and info[t][0] + 2 <= pr.max_depth:
                    # make sure the pair really differs in an int/float spelling: c * T(x) and c.0 * T(y)
                    cint = add({"op": "Constant", "value": rng.choice([2, 3, -1, 4, -2])})
                    t = add({"op": "Multiply"}, [cint, t] if rng.random() < 0.5 else [t, cint])
                t2 = mirror(t, {v1: rng.choice(others)}, {})
                ks = [t, t2] + ([pick_kid()] if rng.random() < 0.3 else [])
                rng.shuffle(ks)
                cand = ({"op": op}, ks)
                special = True
            elif op in lib.NARY:
                ar = rng.choice(pr.arity)
                ks = [pick_kid() for _ in range(ar)]
                if ks and rng.random() < pr.dup_prob:
                    # repeated terms / factors (x + y + x + y): like-term handling is order-sensitive code
                    for k in rng.sample(ks, rng.randint(1, len(ks))):
                        if nodes[k]["op"] == "Variable" and rng.random() < 0.5:
                            k = add({"op": "Variable", "name": nodes[k]["name"]})   # equal but distinct object
                        ks.append(k)
                    rng.shuffle(ks)
                    special = True
                cand = ({"op": op}, ks)
            elif op in lib.BINARY:
                cand = ({"op": op}, [pick_kid(), pick_kid()])
            elif op in lib.UNARY:
                cand = ({"op": op}, [pick_kid()])
            elif op in lib.PARAM_N:
                cand = ({"op": op, "n": rng.choice(NS)}, [pick_kid()])
            elif op == "Exponential":
                cand = ({"op": op, "base": rng.choice(BASES_EXP)}, [pick_kid()])
            else:
                cand = ({"op": op, "base": rng.choice(BASES_LOG)}, [pick_kid()])
        node, kids = cand
        depth = 1 + max((info[k][0] for k in kids), default=0)
        size = 1 + sum(info[k][1] for k in kids)
        if depth > pr.max_depth or size > pr.max_size:
            continue
        if node["op"] == "Power" and _bad_exponent(info, kids[1]):
            continue
        made = add(node, kids)
        if special:
            pr.interesting.append(made)
        if node["op"] in lib.PARAM_N and rng.random() < pr.twin_prob:
            # the twin: same inner, same n, the other class (NthRoot prints itself as NthPower, so
            # anything keyed by printed form confuses the two)
            other = "NthRoot" if node["op"] == "NthPower" else "NthPower"
            twin = add({"op": other, "n": node["n"]}, kids)
            if rng.random() < 0.4:
                # the same pair over a constant: both fold to (different) constants during simplification
                cc = add({"op": "Constant", "value": rng.choice([2, 3, 4, 16, 0.5, 2.0, 10])})
                nn = rng.choice([2, 3, 4, 2])
                a1 = add({"op": "NthPower", "n": nn}, [cc])
                a2 = add({"op": "NthRoot", "n": nn}, [cc])
                xv = var_ids[rng.choice(ord_vars)] if ord_vars else cc
                wrap = rng.choice(["Multiply", "Add"])
                pr.interesting.append(add({"op": wrap}, [a1, xv]))
                pr.interesting.append(add({"op": wrap}, [a2, xv]))
            if rng.random() < 0.6:
                # and a pair of equally shaped parents over the two twins
                wrap = rng.choice(["Multiply", "Add", "Sine", "Exponential"])
                if wrap in lib.NARY:
                    c = add({"op": "Constant", "value": _const(rng, pr)})
                    extra = pick_kid()
                    if info[extra][0] + 1 <= pr.max_depth and info[extra][1] + size + 2 <= pr.max_size:
                        pr.interesting.append(add({"op": wrap}, [c, made, extra]))
                        pr.interesting.append(add({"op": wrap}, [c, twin, extra]))
                elif wrap == "Sine":
                    add({"op": "Sine"}, [made])
                    add({"op": "Sine"}, [twin])
                else:
                    add({"op": "Exponential", "base": 2}, [made])
                    add({"op": "Exponential", "base": 2}, [twin])
    return nodes, info, ord_vars, trip_vars, miss_vars


def gen_points(rng, pr, ord_vars, trip_vars, miss_vars):
    points = []
    for _ in range(pr.n_points):
        coords = []
        for v in ord_vars:
            val = rng.choice(pr.grid)
            if rng.random() < pr.positive_bias:
                val = abs(val) if val != 0 else 1
            coords.append([v, val])
        for t in trip_vars:
            if rng.random() < pr.arm_prob:
                coords.append([t, rng.choice([0, -1, -0.5, 0.0, -2])])       # armed
            else:
                coords.append([t, rng.choice([0.5, 1, 2, 1.0, 3])])           # disarmed
        for m in miss_vars:
            if rng.random() >= pr.miss_prob:
                coords.append([m, rng.choice([0.5, 1, 2, -1])])
        if rng.random() < 0.15:
            coords.append(["unused_q", 7])
        if pr.frac_prob and rng.random() < pr.frac_prob and coords:
            # a real-number coordinate that is neither int nor float
            coords[rng.randrange(len(coords))][1] = {"frac": rng.choice([[1, 3], [-2, 3], [7, 10], [5, 2], [1, 7]])}
        rng.shuffle(coords)
        points.append(coords)
    if len(points) >= 2 and rng.random() < pr.perm_points_prob:
        # a point whose values are those of another point rotated among the names, written in the
        # rotated order too: same sequence of values as written, different assignment
        src = points[0]
        if len(src) >= 2:
            k = rng.randrange(1, len(src))
            names = [c[0] for c in src]
            vals = [c[1] for c in src]
            rot = names[k:] + names[:k]
            points[1] = [[n, v] for n, v in zip(rot, vals)]
    return points


class _Pool:
    """Static view of which names exist and their types, as the generator emits steps."""

    def __init__(self, nodes, info):
        self.entries = []      # dicts: name, type, vars, size, owner, meta...
        for i, (d, s, vs, cv) in enumerate(info):
            self.entries.append({"name": f"n{i}", "type": "E", "vars": vs, "size": s, "depth": d,
                                 "owner": None, "root": f"n{i}",
                                 "bad_exponent": (not vs) and (cv is None or abs(cv) > 100)})

    def of_type(self, *types):
        return [e for e in self.entries if e["type"] in types]


def _wchoice(rng, items, weights):
    total = sum(weights)
    if total <= 0:
        return None
    r = rng.random() * total
    acc = 0.0
    for it, w in zip(items, weights):
        acc += w
        if r < acc:
            return it
    return items[-1]


def gen_steps(rng, pr, nodes, info, all_vars, points):
    n_points = len(points)
    pool = _Pool(nodes, info)
    # each client gets favourite roots among the deeper nodes
    exprs = pool.of_type("E")
    weights_root = [(e["depth"] ** 2) * (1.0 if e["size"] <= 120 else 0.3) for e in exprs]
    favourites = []
    for c in range(pr.n_clients):
        favs = []
        for _ in range(rng.randint(1, 3)):
            favs.append(_wchoice(rng, exprs, weights_root)["name"])
        favourites.append(favs)
    steps = []
    kinds = [k for k in STEP_KINDS if pr.weights.get(k, 0) > 0]
    kweights = [pr.weights[k] for k in kinds]
    by_name = {e["name"]: e for e in pool.entries}

    def pick_expr(c, max_size=None):
        cands = pool.of_type("E")
        if max_size is not None:
            cands = [e for e in cands if e["size"] <= max_size]
        if not cands:
            return None
        if rng.random() >= pr.foreign_prob:
            mine = [e for e in cands if e["name"] in favourites[c] or e["owner"] == c]
            if mine:
                return rng.choice(mine)
        ws = [(e["depth"] ** 2) for e in cands]
        return _wchoice(rng, cands, ws)

    def pick_obj(c, *types):
        cands = pool.of_type(*types)
        if not cands:
            return None
        if rng.random() >= pr.foreign_prob:
            mine = [e for e in cands if e["owner"] == c]
            if mine:
                return rng.choice(mine)
        return rng.choice(cands)

    def pick_var(entry):
        vs = entry["vars"]
        r = rng.random()
        if vs and r < 0.8:
            return rng.choice(vs)
        return rng.choice(all_vars + ["absent_v"])

    def new_entry(step, typ, c, **meta):
        e = {"name": f"s{step['id']}", "type": typ, "owner": c, "vars": meta.pop("vars", []),
             "size": meta.pop("size", 10), "depth": meta.pop("depth", 3)}
        e.update(meta)
        pool.entries.append(e)
        by_name[e["name"]] = e
        return e

    sid = 0
    guard = 0
    while len(steps) < pr.n_steps and guard < pr.n_steps * 8:
        guard += 1
        c = rng.randrange(pr.n_clients)
        kind = _wchoice(rng, kinds, kweights)
        st = {"id": sid, "c": c}
        p = rng.randrange(n_points)
        if kind == "at":
            e = pick_expr(c)
            st.update(k="at", o=e["name"], p=p)
        elif kind == "at_num":
            e = pick_expr(c)
            if len(e["vars"]) > 1 and rng.random() < 0.8:
                singles = [x for x in pool.of_type("E") if len(x["vars"]) <= 1 and x["depth"] >= 2]
                if singles:
                    e = rng.choice(singles)
            st.update(k="at", o=e["name"], num=rng.choice(pr.grid))
        elif kind == "mk_partial":
            early = rng.random() < pr.early_prob
            e = pick_expr(c, pr.heavy_size if early else None)
            if e is None:
                continue
            v = pick_var(e)
            st.update(k="mk", cls="Partial", e=e["name"], v=v, vobj=rng.random() < pr.vobj_prob, early=early)
            new_entry(st, "P", c, root=e["name"], early=early, vars=e["vars"], size=e["size"])
        elif kind == "mk_derivative":
            early = rng.random() < pr.early_prob
            cands = [x for x in pool.of_type("E") if len(x["vars"]) <= 1 and x["depth"] >= 2
                     and (not early or x["size"] <= pr.heavy_size)]
            if cands and rng.random() < 0.9:
                e = rng.choice(cands)
            else:
                e = pick_expr(c, pr.heavy_size if early else None)
                if e is None:
                    continue
            st.update(k="mk", cls="Derivative", e=e["name"], early=early)
            new_entry(st, "D", c, root=e["name"], early=early, vars=e["vars"], size=e["size"])
        elif kind == "mk_differential":
            early = rng.random() < pr.early_prob
            e = pick_expr(c, pr.heavy_size if early else None)
            if e is None:
                continue
            st.update(k="mk", cls="Differential", e=e["name"], early=early)
            new_entry(st, "F", c, root=e["name"], early=early, vars=e["vars"], size=e["size"])
        elif kind == "mk_located":
            e = pick_expr(c)
            st.update(k="mk", cls="LocatedDifferential", e=e["name"], p=p)
            new_entry(st, "L", c, root=e["name"], vars=e["vars"], size=e["size"])
        elif kind == "pat":
            o = pick_obj(c, "P", "D")
            if o is None:
                continue
            if o["type"] == "D" and rng.random() < 0.4:
                st.update(k="at", o=o["name"], num=rng.choice(pr.grid))
            else:
                st.update(k="at", o=o["name"], p=p)
        elif kind == "dat":
            o = pick_obj(c, "F")
            if o is None:
                continue
            st.update(k="dat", o=o["name"], p=p)
            new_entry(st, "L", c, root=o["root"], vars=o["vars"], size=o["size"])
        elif kind == "comp":
            o = pick_obj(c, "F")
            if o is None:
                continue
            st.update(k="comp", o=o["name"], v=pick_var(o), vobj=rng.random() < pr.vobj_prob)
            new_entry(st, "P", c, root=o["root"], early=o.get("early", False), vars=o["vars"], size=o["size"])
        elif kind == "compat":
            o = pick_obj(c, "F")
            if o is None:
                continue
            st.update(k="compat", o=o["name"], v=pick_var(o), vobj=rng.random() < pr.vobj_prob, p=p)
        elif kind == "lcomp":
            o = pick_obj(c, "L")
            if o is None:
                continue
            st.update(k="lcomp", o=o["name"], v=pick_var(o), vobj=rng.random() < pr.vobj_prob)
        elif kind == "asx":
            cands = [x for x in pool.of_type("P", "D") if x["size"] <= pr.heavy_size]
            if not cands:
                continue
            mine = [x for x in cands if x["owner"] == c]
            o = rng.choice(mine) if (mine and rng.random() >= pr.foreign_prob) else rng.choice(cands)
            st.update(k="asx", o=o["name"])
            new_entry(st, "E", c, root=None, vars=o["vars"], size=o["size"], depth=3, derived=True)
        elif kind == "norm":
            e = pick_expr(c, pr.heavy_size)
            if e is None:
                continue
            st.update(k="norm", o=e["name"])
            new_entry(st, "E", c, root=None, vars=e["vars"], size=e["size"], depth=e["depth"], derived=True)
        elif kind == "build":
            op = rng.choice(INTERNAL_OPS)
            small = [x for x in pool.of_type("E") if x["size"] <= 120]
            if not small:
                continue
            derived = [x for x in small if x.get("derived")]

            def kid():
                if derived and rng.random() < 0.5:
                    return rng.choice(derived)
                return rng.choice(small)
            via = "ctor"
            if op in lib.NARY:
                ar = rng.choice([0, 1, 2, 2, 3])
                ks = [kid() for _ in range(ar)]
                if ar == 2 and rng.random() < 0.4:
                    via = "oper"
            elif op in lib.BINARY:
                ks = [kid(), kid()]
                if op == "Power" and (ks[1].get("bad_exponent") or ks[1].get("derived")):
                    continue
                if rng.random() < 0.4:
                    via = "oper"
            else:
                ks = [kid()]
                if op == "Negation" and rng.random() < 0.4:
                    via = "oper"
            st.update(k="build", op=op, kids=[x["name"] for x in ks], via=via)
            if op in lib.PARAM_N:
                st["n"] = rng.choice(NS)
                if op == "NthPower" and rng.random() < 0.4:
                    st["via"] = "oper"
            elif op == "Exponential":
                st["base"] = rng.choice(BASES_EXP)
            elif op == "Logarithm":
                st["base"] = rng.choice(BASES_LOG)
            vs = []
            for x in ks:
                for v in x["vars"]:
                    if v not in vs:
                        vs.append(v)
            size = 1 + sum(x["size"] for x in ks)
            if size > 200:
                continue
            new_entry(st, "E", c, root=None, vars=vs, size=size,
                      depth=1 + max((x["depth"] for x in ks), default=0),
                      derived=any(x.get("derived") for x in ks), bad_exponent=not vs)
        elif kind == "eq":
            a = rng.choice(pool.entries)
            same = [x for x in pool.entries if x["type"] == a["type"]]
            b = rng.choice(same) if rng.random() < 0.8 else rng.choice(pool.entries)
            st.update(k="eq", a=a["name"], b=b["name"])
        elif kind == "hash":
            st.update(k="hash", o=rng.choice(pool.entries)["name"])
        elif kind == "repr":
            st.update(k="repr", o=rng.choice(pool.entries)["name"])
        elif kind == "peq":
            st.update(k="peq", p=p, twin=sorted([list(c) for c in points[p]], key=lambda c: c[0]))
        elif kind == "tat":
            small = [x for x in pool.of_type("E") if x["size"] <= 120 and x["depth"] >= 2]
            if not small:
                continue
            s0 = rng.choice(small)
            op = rng.choice(["Add", "Multiply", "Minus", "Negation", "Sine", "Exponential", "NthPower"])
            if op in lib.NARY:
                ks = [s0, rng.choice(pool.of_type("E"))] if rng.random() < 0.6 else [s0]
                if rng.random() < 0.5:
                    ks.reverse()
            elif op == "Minus":
                ks = [s0, rng.choice(pool.of_type("E"))]
            else:
                ks = [s0]
            if 1 + sum(x["size"] for x in ks) > 200:
                continue
            st.update(k="tat", op=op, kids=[x["name"] for x in ks], p=p, via="ctor")
            if op == "NthPower":
                st["n"] = rng.choice([1, 2, 3])
            elif op == "Exponential":
                st["base"] = rng.choice(BASES_EXP)
        elif kind == "tpat":
            e = pick_expr(c)
            st.update(k="tpat", e=e["name"], v=pick_var(e), vobj=rng.random() < pr.vobj_prob, early=False, p=p)
        else:
            continue
        steps.append(st)
        sid += 1
    return steps


# larger inputs than a test would write: wide n-ary nodes, deep nesting, many variables (an explicit-stack
# walk, a chunked reset, a size-dependent fast path only show there)
BIG_BASE = {"arity": [2, 3, 5, 8, 8, 12, 16], "max_depth": (8, 16), "n_ord": (4, 9), "n_nodes": (30, 70),
            "n_steps": (10, 30), "share": [0.3, 0.5, 0.7]}


def gen_scenario(rng, base=None):
    pr = Profile(rng, base)
    nodes, info, ord_vars, trip_vars, miss_vars = gen_world(rng, pr)
    points = gen_points(rng, pr, ord_vars, trip_vars, miss_vars)
    all_vars = ord_vars + trip_vars + miss_vars
    steps = gen_steps(rng, pr, nodes, info, all_vars, points)
    if rng.random() < pr.sweep_prob:
        steps = sweep_steps(rng, pr, nodes, info, points, steps)
    scn = {"nodes": nodes, "points": points, "steps": steps, "vars": all_vars + ["absent_v"]}
    _spell_names(rng, pr, scn)
    return scn


def hammer(rng, scn):
    """Hot loops: one to three query steps of the scenario (an evaluation, a component query, a temporary
    root) are repeated 30-120 times each on the SAME objects, at the same Point object or alternating between
    two, spread over the rest of the schedule -- so that a per-object or per-process threshold (a call
    counter, an eviction limit, "after the n-th call take the fast path") is crossed while other clients keep
    using the sharing expressions in between."""
    steps = scn["steps"]
    cand = [i for i, st in enumerate(steps) if st["k"] in ("at", "compat", "lcomp", "tpat", "tat", "dat")]
    if not cand:
        return scn
    sid = max(st["id"] for st in steps) + 1
    n_points = len(scn["points"])
    creator = {f"s{st['id']}": st for st in steps}

    def weight(st):
        # long-lived derivative objects that change state when used (late Partial / Derivative / component
        # objects) are the likeliest home of a call counter
        c = creator.get(st.get("o", ""))
        if st["k"] == "at" and c is not None and c["k"] in ("mk", "comp") and not c.get("early"):
            return 6
        if st["k"] in ("compat", "dat", "lcomp"):
            return 2
        return 1
    ws = [weight(steps[i]) for i in cand]
    chosen = []
    for _ in range(rng.randint(1, 4)):
        i = _wchoice(rng, cand, ws)
        if i not in chosen:
            chosen.append(i)
    for src in [steps[i] for i in chosen]:
        reps = rng.randint(30, 120)
        alt = rng.randrange(n_points) if ("p" in src and "num" not in src and src["k"] != "lcomp") else None
        alt_prob = rng.choice([0.0, 0.1, 0.4])
        at = steps.index(src)
        for _ in range(reps):
            cp = dict(src, id=sid)
            sid += 1
            if alt is not None and rng.random() < alt_prob:
                cp["p"] = alt
            # mostly in a tight burst right behind the original, sometimes anywhere later
            lo = at + 1
            hi = len(steps) if rng.random() < 0.3 else min(len(steps), at + 1 + 2 * reps)
            steps.insert(rng.randint(lo, hi), cp)
    return scn


def _spell_names(rng, pr, scn):
    """Argument spelling: names handed to the API as freshly built (non-interned) str objects, as they
    would arrive from a file or from string formatting, instead of the interpreter's shared literals."""
    if pr.fresh_names:
        scn["fresh_names"] = True
        for st in scn["steps"]:
            if "v" in st and rng.random() < 0.5:
                st["vfresh"] = True


def sweep_steps(rng, pr, nodes, info, points, steps):
    """A systematic sweep over every differentiation route of one node (preferably one built by a
    special construct), interleaved into the random steps at seeded positions: early and late
    Differential, every component and its as_expression(), located differentials and every
    component, early and late Partial per variable, and the normal form of the node."""
    cands = [i for i in getattr(pr, "interesting", []) if info[i][1] <= pr.heavy_size]
    if not cands or rng.random() < 0.25:
        cands = [i for i in range(len(nodes)) if info[i][0] >= 2 and info[i][1] <= pr.heavy_size]
    if not cands:
        return steps
    t = rng.choice(cands)
    e = f"n{t}"
    vs = list(info[t][2])[:4]
    if rng.random() < 0.3:
        vs.append("absent_v")
    sid = max([st["id"] for st in steps], default=-1) + 1
    out = []

    def add(**kw):
        nonlocal sid
        kw["id"] = sid
        kw["c"] = rng.randrange(pr.n_clients)
        out.append(kw)
        sid += 1
        return f"s{sid - 1}"
    p = rng.randrange(len(points))
    fe = add(k="mk", cls="Differential", e=e, early=True)
    fl = add(k="mk", cls="Differential", e=e, early=False)
    for v in vs:
        for f in (fe, fl):
            c = add(k="comp", o=f, v=v, vobj=rng.random() < 0.3)
            add(k="asx", o=c)
            add(k="at", o=c, p=p)
    for f in (fe, fl):
        l = add(k="dat", o=f, p=p)
        for v in vs:
            add(k="lcomp", o=l, v=v)
    l = add(k="mk", cls="LocatedDifferential", e=e, p=p)
    for v in vs:
        add(k="lcomp", o=l, v=v)
        pe = add(k="mk", cls="Partial", e=e, v=v, early=True)
        add(k="asx", o=pe)
        add(k="at", o=pe, p=p)
    add(k="norm", o=e)
    # interleave, preserving the relative order of both lists
    merged = []
    i = j = 0
    while i < len(steps) or j < len(out):
        if j >= len(out) or (i < len(steps) and rng.random() < len(steps) / (len(steps) + len(out))):
            merged.append(steps[i])
            i += 1
        else:
            merged.append(out[j])
            j += 1
    return merged


# ---------------------------------------------------------------------------- C06 workload

C06_CONST = [0, 1, -1, 2, 3, 0.5, -0.5, -2, 1.5, 0.25, 2.5, -3, 1.0, 2.0, 0.75]
C06_GRID = [-2, -1, -0.5, 0, 0.5, 1, 2, 3, 0.75, 1.5, 0.3, -1.25, 1.0, 2.0, 0.0, -1.0, 0.125, 0.7]

C06_BASE = {
    "n_ord": (1, 3), "n_trip": [0, 1, 1, 2], "n_miss": [0], "n_nodes": (4, 20), "max_depth": (2, 5),
    "max_size": 60, "n_points": (2, 4), "n_steps": (10, 36), "heavy_size": 40,
    "positive_bias": [0.0, 0.3, 0.6], "group_prob": [0.0, 0.1, 0.2],
    "const_pool": C06_CONST, "grid": C06_GRID,
    # constants like 1e200 are representable but their squares (quotient rule) are not: routes then differ
    # by silent under/overflow, which C06's "up to rounding / inside the double range" proviso excludes
    "ovf_mid": False, "frac_prob": [0.0], "affine_prob": [0.05, 0.15, 0.3],
}


def gen_c06(rng, base=None):
    """Route-replica workload: long-lived derivative objects of every kind for 1-3 target
    expressions (sharing nodes), queried in a seeded interleaving with as_expression() switches,
    failed queries and neighbour evaluations in between."""
    b = dict(C06_BASE)
    if base:
        b.update(base)
    pr = Profile(rng, b)
    nodes, info, ord_vars, trip_vars, miss_vars = gen_world(rng, pr)
    points = gen_points(rng, pr, ord_vars, trip_vars, miss_vars)
    all_vars = ord_vars + trip_vars
    cands = [i for i, (d, s, vs, _cv) in enumerate(info) if d >= 2 and s <= pr.heavy_size]
    if not cands:
        cands = [len(nodes) - 1]
    ws = [info[i][0] ** 2 for i in cands]
    targets = []
    for _ in range(rng.randint(1, 3)):
        t = _wchoice(rng, cands, ws)
        if t not in targets:
            targets.append(t)
    steps = []
    objs = {"P": [], "D": [], "F": [], "L": []}    # entries: dict(name, e, v, early, p)
    sid = 0
    n_steps = pr.n_steps
    guard = 0

    def var_for(t):
        vs = info[t][2]
        r = rng.random()
        if vs and r < 0.85:
            return rng.choice(vs)
        return rng.choice(all_vars + ["absent_v"])

    kinds = ["mkP", "mkD", "mkF", "mkL", "comp", "dat", "patP", "patD", "compat", "lcomp", "asx", "eqP", "eqL",
             "noise", "noise_num"]
    weights = [5, 2, 4, 3, 4, 4, 9, 4, 5, 5, 4, 2, 2, 5, 1]
    for i in range(len(kinds)):
        if kinds[i] not in ("mkP", "patP") and rng.random() < 0.15:
            weights[i] = 0
    while len(steps) < n_steps and guard < n_steps * 10:
        guard += 1
        kind = _wchoice(rng, kinds, weights)
        c = rng.randrange(pr.n_clients)
        st = {"id": sid, "c": c}
        p = rng.randrange(len(points))
        vobj = rng.random() < pr.vobj_prob
        early = rng.random() < pr.early_prob
        if kind == "mkP":
            t = rng.choice(targets)
            v = var_for(t)
            st.update(k="mk", cls="Partial", e=f"n{t}", v=v, vobj=vobj, early=early)
            objs["P"].append({"name": f"s{sid}", "t": t, "v": v})
        elif kind == "mkD":
            single = [t for t in targets if len(info[t][2]) <= 1]
            if not single:
                if rng.random() < 0.9:
                    continue
                single = targets
            t = rng.choice(single)
            st.update(k="mk", cls="Derivative", e=f"n{t}", early=early)
            objs["D"].append({"name": f"s{sid}", "t": t})
        elif kind == "mkF":
            t = rng.choice(targets)
            st.update(k="mk", cls="Differential", e=f"n{t}", early=early)
            objs["F"].append({"name": f"s{sid}", "t": t})
        elif kind == "mkL":
            t = rng.choice(targets)
            st.update(k="mk", cls="LocatedDifferential", e=f"n{t}", p=p)
            objs["L"].append({"name": f"s{sid}", "t": t, "p": p})
        elif kind == "comp":
            if not objs["F"]:
                continue
            o = rng.choice(objs["F"])
            v = var_for(o["t"])
            st.update(k="comp", o=o["name"], v=v, vobj=vobj)
            objs["P"].append({"name": f"s{sid}", "t": o["t"], "v": v})
        elif kind == "dat":
            if not objs["F"]:
                continue
            o = rng.choice(objs["F"])
            st.update(k="dat", o=o["name"], p=p)
            objs["L"].append({"name": f"s{sid}", "t": o["t"], "p": p})
        elif kind == "patP":
            if not objs["P"]:
                continue
            st.update(k="at", o=rng.choice(objs["P"])["name"], p=p)
        elif kind == "patD":
            if not objs["D"]:
                continue
            o = rng.choice(objs["D"])
            vs = info[o["t"]][2]
            if len(vs) == 1 and rng.random() < 0.5:
                val = dict((n, x) for n, x in points[p]).get(vs[0])
                if val is None:
                    continue
                st.update(k="at", o=o["name"], num=val, as_p=p)
            elif len(vs) == 0 and rng.random() < 0.6:
                # an expression without variables accepts any bare number; every point is equivalent
                st.update(k="at", o=o["name"], num=rng.choice(C06_GRID), as_p=p)
            else:
                st.update(k="at", o=o["name"], p=p)
        elif kind == "compat":
            if not objs["F"]:
                continue
            o = rng.choice(objs["F"])
            st.update(k="compat", o=o["name"], v=var_for(o["t"]), vobj=vobj, p=p)
        elif kind == "lcomp":
            if not objs["L"]:
                continue
            o = rng.choice(objs["L"])
            st.update(k="lcomp", o=o["name"], v=var_for(o["t"]), vobj=vobj)
        elif kind == "asx":
            pool = objs["P"] + objs["D"]
            if not pool:
                continue
            st.update(k="asx", o=rng.choice(pool)["name"])
        elif kind == "eqP":
            if len(objs["P"]) < 2:
                continue
            a = rng.choice(objs["P"])
            same = [x for x in objs["P"] if x["t"] == a["t"] and x["v"] == a["v"] and x is not a]
            bb = rng.choice(same) if same and rng.random() < 0.85 else rng.choice(objs["P"])
            st.update(k="eq", a=a["name"], b=bb["name"])
        elif kind == "eqL":
            if len(objs["L"]) < 2:
                continue
            a = rng.choice(objs["L"])
            same = [x for x in objs["L"] if x["t"] == a["t"] and x["p"] == a["p"] and x is not a]
            bb = rng.choice(same) if same and rng.random() < 0.85 else rng.choice(objs["L"])
            st.update(k="eq", a=a["name"], b=bb["name"])
        elif kind == "noise":
            st.update(k="at", o=f"n{rng.randrange(len(nodes))}", p=p)
        elif kind == "noise_num":
            st.update(k="at", o=f"n{rng.randrange(len(nodes))}", num=rng.choice(C06_GRID))
        steps.append(st)
        sid += 1
    if rng.random() < 0.2:
        # systematic sweep: every route object for one (target, variable), queried at every point before
        # and after the as_expression() switch, plus the equality promises -- then the random steps
        from . import directed
        t = rng.choice(targets)
        sweep = directed._routes(f"n{t}", var_for(t), points, with_derivative=len(info[t][2]) <= 1)
        for st in sweep:
            st["c"] = rng.randrange(pr.n_clients)
        off = len(sweep)
        for st in steps:
            st["id"] += off
            for key in ("o", "e", "a", "b"):
                if key in st and st[key][0] == "s":
                    st[key] = f"s{int(st[key][1:]) + off}"
        steps = sweep + steps[:max(0, 40 - 0)]
    scn = {"nodes": nodes, "points": points, "steps": steps, "vars": all_vars + ["absent_v"],
           "targets": [f"n{t}" for t in targets]}
    _spell_names(rng, pr, scn)
    return scn


# ---------------------------------------------------------------------------- rewrite-budget exhaustion

def gen_giveup(rng):
    """Natural GIVEUP fault: the derivative of a Horner polynomial of degree ~40 needs more than the
    rewriter's 1000-step budget, so as_expression() / early construction give up part-way; the
    scenario then keeps using the returned expression, the original and second derivative objects."""
    degree = rng.randint(38, 46)
    var = rng.choice(["x", "y", "alpha"])
    nodes = [{"op": "Variable", "name": var}]
    acc = None
    for d in range(degree + 1):
        nodes.append({"op": "Constant", "value": rng.choice([1, 2, -1, 0.5, 3, -2, 1.5])})
        c = len(nodes) - 1
        if acc is None:
            acc = c
        else:
            nodes.append({"op": "Multiply", "kids": [0, acc]})
            m = len(nodes) - 1
            nodes.append({"op": "Add", "kids": [c, m]})
            acc = len(nodes) - 1
    root = f"n{acc}"
    sub = f"n{acc - 8}"          # a shared sub-polynomial (an Add node)
    points = [[[var, v]] for v in rng.sample([0.5, -0.5, 1, 0.25, -1, 0.75, 0, 1.0], 3)]
    steps = []
    sid = 0

    def add(**kw):
        nonlocal sid
        kw["id"] = sid
        kw["c"] = rng.randrange(3)
        steps.append(kw)
        sid += 1
        return f"s{sid - 1}"
    add(k="at", o=sub, p=0)
    pl = add(k="mk", cls="Partial", e=root, v=var, early=False)
    add(k="at", o=pl, p=1)
    ex1 = add(k="asx", o=pl)                       # gives up
    add(k="at", o=ex1, p=rng.randrange(3))
    add(k="at", o=pl, p=rng.randrange(3))          # now on the symbolic path
    add(k="at", o=root, p=2)
    if rng.random() < 0.5:
        pe = add(k="mk", cls="Derivative", e=root, early=True)     # gives up at construction
        add(k="at", o=pe, p=rng.randrange(3))
        ex2 = add(k="asx", o=pe)
        add(k="eq", a=ex1, b=ex2)
    else:
        fe = add(k="mk", cls="Differential", e=root, early=True)
        add(k="compat", o=fe, v=var, p=rng.randrange(3))
        l = add(k="dat", o=fe, p=rng.randrange(3))
        add(k="lcomp", o=l, v=var)
    add(k="at", o=sub, num=rng.choice([0.5, 2, -1]))
    add(k="at", o=ex1, p=rng.randrange(3))
    return {"nodes": nodes, "points": points, "steps": steps, "vars": [var], "heavy_cap": 100000,
            "size_cap": 100000, "giveup": True}


# ---------------------------------------------------------------------------- medium-size multi-variable input

def gen_budget(rng):
    """A sum of two medium Horner polynomials in different variables: each partial of it needs several
    hundred rewrite steps (below the 1000-step budget on its own).  Used by C18: anything that makes the
    components of an early Differential share a resource in set-iteration order shows up here."""
    names = rng.sample(["x", "y", "alpha", "b2", "theta_long_name", "k"], 2)
    nodes = []
    roots = []
    for name in names:
        nodes.append({"op": "Variable", "name": name})
        var = len(nodes) - 1
        acc = None
        for d in range(rng.randint(17, 21)):
            nodes.append({"op": "Constant", "value": rng.choice([1, 2, -1, 0.5, 3, -2, 1.5])})
            c = len(nodes) - 1
            if acc is None:
                acc = c
            else:
                nodes.append({"op": "Multiply", "kids": [var, acc]})
                nodes.append({"op": "Add", "kids": [c, len(nodes) - 1]})
                acc = len(nodes) - 1
        roots.append(acc)
    nodes.append({"op": "Add", "kids": roots})
    root = f"n{len(nodes) - 1}"
    points = [[[names[0], 0.5], [names[1], -0.75]], [[names[1], 1.25], [names[0], -0.5]]]
    steps = []
    sid = 0

    def add(**kw):
        nonlocal sid
        kw["id"] = sid
        kw["c"] = 0
        steps.append(kw)
        sid += 1
        return f"s{sid - 1}"
    fe = add(k="mk", cls="Differential", e=root, early=True)
    for v in names:
        c = add(k="comp", o=fe, v=v)
        add(k="asx", o=c)
        add(k="at", o=c, p=0)
    l = add(k="dat", o=fe, p=1)
    for v in names:
        add(k="lcomp", o=l, v=v)
        pe = add(k="mk", cls="Partial", e=root, v=v, early=True)
        add(k="asx", o=pe)
    return {"nodes": nodes, "points": points, "steps": steps, "vars": names, "heavy_cap": 100000, "size_cap": 100000}
