"""Batch runner: seeded search over many simulated runs on all cores, aggregation of reach
measures, minimisation + replay file on violation, evidence file.

Exit codes used by the CLI: 0 held, 1 violation, 2 harness error (never 0 on timeout / internal error).
"""
from __future__ import annotations
import faulthandler
import hashlib
import json
import multiprocessing
import os
import random
import subprocess
import sys
import time
from concurrent.futures import ProcessPoolExecutor, as_completed

from . import engine, shrink as shrink_mod, known as known_mod

VERIF = os.path.dirname(os.path.dirname(os.path.abspath(__file__)))
CHUNK = 250


def mix(seed, prop, index):
    h = hashlib.sha256(f"{seed}:{prop}:{index}".encode()).digest()
    return int.from_bytes(h[:8], "big")


def h64(s):
    return int.from_bytes(hashlib.sha256(s.encode()).digest()[:8], "big")


class Plan:
    """What a property needs: how to generate run #index, which inline oracles, the post-hoc
    oracle over the history, and the rule that makes a run non-trivial."""
    prop = None
    oracles = ()
    runs = {"quick": 1000, "thorough": 10000}
    sample_mod = {"quick": 1, "thorough": 16}

    def gen(self, rng, tier, index):
        raise NotImplementedError

    def posthoc(self, run):
        return []

    def nontrivial(self, run):
        return True

    def directed(self):
        """Fixed scenarios executed on every check (regressions of fixed findings, known findings)."""
        return []

    def describe(self):
        return {}


def _execute_raw(plan, scn, cf=None):
    if scn.get("pristine"):
        from . import pristine
        return pristine.execute(scn, cf)
    g0 = engine.GIVEUP.count
    run = engine.Run(scn, oracles=plan.oracles).execute()
    viol = list(run.violations)
    if not viol:
        viol = list(plan.posthoc(run))
    run.gave_up = engine.GIVEUP.count > g0        # live operations or their fresh replicas
    return run, viol


def execute(plan, scn):
    """One simulated run: returns (run, violations).  A violation found in a run during which the
    rewriter gave up is replayed with the step budget lifted (counterfactual, classification only):
    if the run is then clean it is attributed to known finding F4 (if listed for this property)."""
    run, viol = _execute_raw(plan, scn)
    if viol and any(("OpTimeout" in v.detail or "MemoryError" in v.detail or "unwalkable" in v.oracle) for v in viol):
        # a watchdog outcome depends on wall-clock time: report it only if a second execution agrees
        run_b, viol_b = _execute_raw(plan, scn)
        if not viol_b:
            run.unconfirmed_timeouts = 1
            viol = []
    # (not conditioned on having *observed* the give-up warning: a refactor may report it differently)
    if viol and known_mod.listed(_known(), plan.prop, "F4"):
        from . import counterfactual as CF
        try:
            restore = CF.lift_reduction_bound()
        except CF.Unavailable:
            restore = None
        if restore is not None:
            try:
                run2, viol2 = _execute_raw(plan, scn, cf="lift_bound")
            finally:
                restore()
            if not viol2 and all(_f4_applies(v, run, run2) for v in viol):
                kf = list(getattr(run, "known_findings", ()))
                kf.append("F4")
                run.known_findings = kf
                run.attributed = [v.to_json() for v in viol]
                viol = []
    return run, viol


def _f4_applies(v, normal_run, lifted_run):
    """F4 is the *legitimate* give-up regime: the input is too large for the shipped step budget, so even
    freshly built copies give up.  That is the case iff some reference-side outcome of the run -- up to and
    including the violating step -- changes when the budget is lifted.  (Before the violating step the live
    side agreed with the reference, so the recorded outcomes ARE the reference-side outcomes; at the violating
    step the reference outcome travels with the violation.)  If nothing on the reference side depends on the
    budget, the live side deviated for another reason -- for instance a defect that makes the rewriter give
    up spuriously -- and the violation stands.  Decided from recorded outcomes only, not from how a give-up
    is reported."""
    probe = getattr(v, "f4_probe", None)
    if not probe or probe.get("kind") != "step":
        return True                      # no finer information: fall back to the plain counterfactual
    lifted = {st.get("id"): engine.outcome_str(out) for st, out in lifted_run.records if st is not None}
    for st, out in normal_run.records:
        if st is None:
            continue
        sid = st.get("id")
        ref = probe["ref"] if sid == probe["step"] else engine.outcome_str(out)
        if sid in lifted and lifted[sid] != ref:
            return True
        if sid == probe["step"]:
            break
    return False


_KNOWN = None


def _known():
    global _KNOWN
    if _KNOWN is None:
        _KNOWN = known_mod.load()
    return _KNOWN


def _merge_stats(acc, st):
    for k, v in st.items():
        if isinstance(v, dict):
            _merge_stats(acc.setdefault(k, {}), v)
        else:
            acc[k] = acc.get(k, 0) + v


def _chunk_worker(args):
    """Every chunk runs in a freshly forked child of the (never used) pool worker: whatever
    process-global state a defect accumulates across runs starts from zero at every chunk boundary, so
    the outcome of run i is a function of the runs chunk_start..i only -- deterministic whatever chunk
    the worker handled before, and replayable ("context" replay files)."""
    from . import pristine
    deadline_s = args[5]
    res = pristine._in_child(_chunk_body, args, deadline_s=deadline_s + 30)
    if res[0] != "ok":
        raise engine.HarnessError(f"chunk {args[3]}..{args[4]} did not finish: {res[1]}")
    return res[1]


def _chunk_body(args):
    plan, tier, seed, start, stop, deadline_s = args
    if getattr(plan, "uses_pristine", False):
        from . import pristine
        pristine.adopt_zygote()
    faulthandler.enable()
    faulthandler.dump_traceback_later(deadline_s, exit=True)
    try:
        # a runaway structure (defect under test) must end in a MemoryError outcome, not in the OOM killer
        import resource
        soft, hard = resource.getrlimit(resource.RLIMIT_AS)
        limit = int(os.environ.get("VERIF_WORKER_MEM_GB", "4")) << 30
        if hard == resource.RLIM_INFINITY or limit <= hard:
            resource.setrlimit(resource.RLIMIT_AS, (limit, hard))
    except (ImportError, ValueError, OSError):
        pass
    mod = plan.sample_mod[tier]
    stats = {}
    digests = []
    sigs, trans, scheds = set(), set(), set()
    viols = []
    known = {}
    sample = None
    nontrivial = 0
    for idx in range(start, stop):
        rng = random.Random(mix(seed, plan.prop, idx))
        scn = plan.gen(rng, tier, idx)
        try:
            with engine.deadline(engine.RUN_DEADLINE_S, engine.RunTimeout):
                run, viol = execute(plan, scn)
        except engine.RunTimeout:
            # nothing can be claimed about this run; the batch goes on (counted in the evidence)
            stats["runs_timed_out"] = stats.get("runs_timed_out", 0) + 1
            continue
        _merge_stats(stats, run.stats)
        for kf in getattr(run, "known_findings", ()):      # attributed to a listed known finding
            known[kf] = known.get(kf, 0) + 1
        extra = getattr(run, "extra_stats", None)
        if extra:
            _merge_stats(stats, extra)
        d = engine.log_digest(run.log)
        if plan.nontrivial(run):
            nontrivial += 1
            digests.append(int(d[:16], 16))
        for s in run.sigs:
            if s % mod == 0:
                sigs.add(s)
        for t in run.trans:
            if t % mod == 0:
                trans.add(t)
        scheds.add(h64(",".join(f"{st.get('c', 0)}{st['k']}" for st in scn["steps"])))
        if viol and len(viols) < 3:
            viols.append((idx, [v.to_json() for v in viol], scn))
        if sample is None and idx == start and start == 0:
            sample = {"run_index": idx, "scenario": _compact_scn(scn), "event_log": run.log[:40]}
    faulthandler.cancel_dump_traceback_later()
    return {"start": start, "stop": stop, "stats": stats, "digests": digests, "sigs": sigs, "trans": trans,
            "scheds": scheds, "viols": viols, "sample": sample, "nontrivial": nontrivial, "known": known}


def _compact_scn(scn):
    return {"nodes": scn["nodes"], "points": scn["points"], "steps": scn["steps"]}


def run_batch(plan, tier, seed, n_runs=None, workers=None, wall_cap_s=None):
    t0 = time.time()
    n_runs = n_runs if n_runs is not None else plan.runs[tier]
    workers = workers or int(os.environ.get("VERIF_WORKERS", "0")) or min(16, os.cpu_count() or 1)
    wall_cap_s = wall_cap_s or (900 if tier == "quick" else 18000)
    chunk_deadline = wall_cap_s if tier == "thorough" else min(wall_cap_s, 420)
    chunks = [(plan, tier, seed, s, min(n_runs, s + CHUNK), chunk_deadline) for s in range(0, n_runs, CHUNK)]
    results = []
    ctx = multiprocessing.get_context("fork")
    if workers == 1:
        if getattr(plan, "uses_pristine", False):
            from . import pristine
            pristine.init_zygote()
        for c in chunks:
            results.append(_chunk_body(c))
    else:
        init = None
        if getattr(plan, "uses_pristine", False):
            from . import pristine
            init = pristine.init_zygote      # each worker forks its zygote before it executes anything
        ex = ProcessPoolExecutor(max_workers=workers, mp_context=ctx, initializer=init)
        trouble = None
        try:
            futs = [ex.submit(_chunk_worker, c) for c in chunks]
            last = time.time()
            try:
                for f in as_completed(futs, timeout=wall_cap_s):
                    try:
                        results.append(f.result())
                    except Exception as e:      # noqa: BLE001 - a worker died (BrokenProcessPool) or raised
                        trouble = trouble or f"{type(e).__name__}: {e}"
                        if type(e).__name__ == "BrokenProcessPool":
                            break
                    if time.time() - last > 60:
                        last = time.time()
                        nv = sum(len(r["viols"]) for r in results)
                        print(f"progress: {len(results)}/{len(chunks)} chunks, {nv} violating runs so far, "
                              f"{time.time() - t0:.0f}s", flush=True)
            except TimeoutError as e:
                trouble = f"TimeoutError: {e}"
        finally:
            if trouble:
                for proc in list(getattr(ex, "_processes", {}).values()):
                    try:
                        proc.kill()
                    except Exception:       # noqa: BLE001
                        pass
            ex.shutdown(wait=not trouble, cancel_futures=True)
        if trouble:
            # part of the batch did not finish (a worker hung or died).  Violations already found in the
            # finished part are real and are reported; with none, the check cannot claim anything: exit 2.
            if not any(r["viols"] for r in results):
                raise engine.HarnessError(f"batch incomplete ({len(results)}/{len(chunks)} chunks): {trouble}")
            print(f"warning: batch incomplete ({len(results)}/{len(chunks)} chunks): {trouble}", flush=True)
    results.sort(key=lambda r: r["start"])
    agg = {"stats": {}, "digests": set(), "sigs": set(), "trans": set(), "scheds": set(), "viols": [],
           "samples": [], "nontrivial": 0, "known": {}}
    for r in results:
        _merge_stats(agg["stats"], r["stats"])
        agg["digests"].update(r["digests"])
        agg["sigs"].update(r["sigs"])
        agg["trans"].update(r["trans"])
        agg["scheds"].update(r["scheds"])
        agg["viols"].extend(r["viols"])
        agg["nontrivial"] += r["nontrivial"]
        for k, v in r["known"].items():
            agg["known"][k] = agg["known"].get(k, 0) + v
        if r["sample"]:
            agg["samples"].append(r["sample"])
    agg["runs"] = sum(r["stop"] - r["start"] for r in results)
    agg["workers"] = workers
    agg["wall_s"] = time.time() - t0
    return agg


# ------------------------------------------------------------------ violation -> replay file

def minimise_and_write(plan, seed, idx, viol_json, scn, tag=""):
    cls = viol_json[0]["class"]

    def still_fails(cand):
        _, v = execute(plan, cand)
        return any(x.oracle == cls for x in v)
    small = shrink_mod.shrink(scn, still_fails, budget_s=float(os.environ.get("VERIF_SHRINK_S", "60")))
    run, v = execute(plan, small)
    v = [x for x in v if x.oracle == cls] or v
    os.makedirs(os.path.join(VERIF, "replays"), exist_ok=True)
    path = os.path.join(VERIF, "replays", f"{plan.prop}-{seed}-{idx}{tag}.json")
    doc = {
        "property": plan.prop, "violation_class": cls, "verif_seed": seed, "run_index": idx,
        "scenario": small, "original_steps": len(scn["steps"]), "original_nodes": len(scn["nodes"]),
        "expected": v[0].to_json() if v else viol_json[0],
        "event_log": run.log,
        "how_to_replay": f"./check {plan.prop} --replay {path}",
    }
    with open(path, "w") as f:
        json.dump(doc, f, indent=1)
    return path, doc


def run_range(plan, tier, seed, start, stop):
    """Runs start..stop-1 of the seeded batch sequentially in THIS process; returns (run, violations) of
    the last one.  (Context replay: a violation that needs the runs before it in the same process.)"""
    run = viol = None
    for idx in range(start, stop):
        rng = random.Random(mix(seed, plan.prop, idx))
        scn = plan.gen(rng, tier, idx)
        try:
            with engine.deadline(engine.RUN_DEADLINE_S, engine.RunTimeout):
                run, viol = execute(plan, scn)
        except engine.RunTimeout:
            run, viol = None, []
    return run, viol


def write_context_replay(plan, tier, seed, start, idx, viol_json):
    """Shortest suffix start'..idx of the chunk prefix that still reproduces (bisection), as a replay file."""
    cls = viol_json[0]["class"]
    os.makedirs(os.path.join(VERIF, "replays"), exist_ok=True)
    path = os.path.join(VERIF, "replays", f"{plan.prop}-{seed}-{idx}-context.json")

    def reproduces(s0):
        doc = {"property": plan.prop, "mode": "context", "violation_class": cls, "verif_seed": seed,
               "tier": tier, "start": s0, "run_index": idx, "expected": viol_json[0],
               "note": "reproduces only after the runs that preceded it in the same process "
                       "(process-global state); the replay re-executes runs start..run_index in one fresh process",
               "how_to_replay": f"./check {plan.prop} --replay {path}"}
        with open(path, "w") as f:
            json.dump(doc, f, indent=1)
        return verify_replay_in_fresh_process(plan.prop, path, timeout=900)
    if not reproduces(start):
        os.remove(path)
        return None
    lo, hi = start, idx              # invariant: reproduces(lo); try to raise lo
    for _ in range(6):
        mid = (lo + hi + 1) // 2
        if mid == lo or mid > idx:
            break
        if reproduces(mid):
            lo = mid
        else:
            hi = mid - 1
    reproduces(lo)
    return path


def replay_file(plan, path):
    """Re-executes a replay file (world rebuilt from the spec, not from the PRNG).
    Returns (reproduced: bool, violations)."""
    with open(path) as f:
        doc = json.load(f)
    if doc.get("mode") == "context":
        run, v = run_range(plan, doc.get("tier", "quick"), doc["verif_seed"], doc["start"], doc["run_index"] + 1)
        v = v or []
        want = doc.get("violation_class")
        hit = [x for x in v if want is None or x.oracle == want]
        return bool(hit), hit, True, run if run is not None else engine.Run({"nodes": [], "points": [], "steps": []})
    run, v = execute(plan, doc["scenario"])
    want = doc.get("violation_class")
    hit = [x for x in v if want is None or x.oracle == want]
    same_step = bool(hit) and hit[0].step_id == doc.get("expected", {}).get("step", hit[0].step_id)
    return bool(hit), hit, same_step, run


def verify_replay_in_fresh_process(prop, path, timeout=180):
    """The minimised file must fail the same way in a fresh interpreter."""
    cmd = [sys.executable, os.path.join(VERIF, "check"), prop, "--replay", path]
    try:
        p = subprocess.run(cmd, capture_output=True, text=True, timeout=timeout)
    except subprocess.TimeoutExpired:
        return False
    return p.returncode == 1 and f"VIOLATION property={prop}" in p.stdout


# ------------------------------------------------------------------ evidence

def write_evidence(plan, tier, seed, agg, violations, extra=None):
    st = agg["stats"]
    mod = plan.sample_mod[tier]
    wall = agg["wall_s"]
    cov = {
        "evaluations": agg["runs"],
        "distinct_nontrivial": len(agg["digests"]),
        "rule": plan.rule,
        "samples": agg["samples"][:3],
        "operations_executed": st.get("ops", 0),
        "operations_failed": st.get("failed_ops", 0),
        "operations_skipped_unbound_operand": st.get("skipped", 0),
        "comparisons_against_fresh_copies": st.get("compared", 0),
        "snapshot_invariant_checks": st.get("snapshot_checks", 0),
        "faults_fired": st.get("fault", {}),
        "faults_fired_partway_memo_left_behind": st.get("fault_partway", {}),
        "rare_condition_probes": st.get("probe", {}),
        "states": len(agg["sigs"]) * mod,
        "transitions": len(agg["trans"]) * mod,
        "states_measure": ("distinct (memo bitmap over the world's nodes x life-cycle bits of derivative objects) "
                           "signatures" + ("" if mod == 1 else f", estimated by 1-in-{mod} hash sampling")),
        "distinct_schedules": len(agg["scheds"]),
        "simulated_runs_per_hour": int(agg["runs"] / wall * 3600) if wall > 0 else 0,
        "seeds_per_hour": int(agg["runs"] / wall * 3600) if wall > 0 else 0,
        "simulated_time": (f"{st.get('ops', 0)} logical steps (operation index is the only clock: "
                           "the library has no timers)"),
        "workers": agg["workers"],
        "real_vs_stub": ("all of smoothmath runs real code from /repo/src (current working tree); "
                         "nothing in the library is stubbed or patched during exploration; the harness "
                         "(generator, scheduler, oracles) is /verif/sim"),
        "notes_bit_level_only_differences": st.get("bit_notes", 0),
        "notes_exception_message_differences": st.get("msg_notes", 0),
        "known_findings_attributed": agg.get("known", {}),
        "pristine_process_runs": st.get("pristine_runs", 0),
        "pristine_reference_processes_forked": st.get("pristine_reference_processes", 0),
        "pristine_comparisons": st.get("pristine_compared", 0),
        "runs_aborted_after_runaway_op": st.get("runs_aborted_after_runaway_op", 0),
        "runs_timed_out_nothing_claimed": st.get("runs_timed_out", 0),
        "pristine_runs_incomplete": st.get("pristine_incomplete", 0),
        "walker_unavailable_degraded_comparisons": st.get("walker_unavailable", 0),
        "reach_warnings": reach_warnings(st, getattr(plan, "unreached_by_design", ())),
        "unreached_by_design": sorted(getattr(plan, "unreached_by_design", ())),
    }
    if extra:
        cov.update(extra)
    doc = {
        "property_id": plan.prop, "tier": tier, "seed": seed, "level": "exploration",
        "coverage": cov,
        "assumptions": plan.assumptions,
        "wall_s": round(wall, 2),
        "violations": len(violations),
    }
    os.makedirs(os.path.join(VERIF, "evidence"), exist_ok=True)
    path = os.path.join(VERIF, "evidence", f"{plan.prop}.json")
    with open(path, "w") as f:
        json.dump(doc, f, indent=1, default=str)
    return path


def reach_warnings(st, by_design=()):
    out = []
    for group in ("fault", "probe"):
        for k, v in st.get(group, {}).items():
            if v == 0 and k not in ("OTHER",) and f"{group}:{k}" not in by_design:
                out.append(f"{group}:{k} never fired")
    return out
