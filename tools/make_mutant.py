#!/venv/bin/python
"""make_mutant.py <name> <file-relative-to-repo> <<< 'OLD\n===\nNEW' -> writes /verif/mutants/<name>.patch
Several hunks: separate by a line '#####' ; each hunk: file on first line, then OLD, '===', NEW."""
import os, subprocess, sys, tempfile, shutil
name = sys.argv[1]
spec = sys.stdin.read()
tmp = tempfile.mkdtemp(prefix="mk_", dir="/tmp")
try:
    subprocess.run(f"git -C /repo archive HEAD | tar -x -C {tmp}", shell=True, check=True)
    subprocess.run(f"cp -r {tmp} {tmp}.orig", shell=True, check=True)
    for hunk in spec.split("\n#####\n"):
        f, rest = hunk.split("\n", 1)
        old, new = rest.split("\n===\n")
        p = os.path.join(tmp, f.strip())
        s = open(p).read()
        old = old.strip("\n"); new = new.strip("\n")
        assert s.count(old) == 1, (f, s.count(old), old)
        open(p, "w").write(s.replace(old, new))
    r = subprocess.run(f"cd /tmp && diff -ruN {os.path.basename(tmp)}.orig {os.path.basename(tmp)} | sed 's#{os.path.basename(tmp)}.orig/#a/#; s#{os.path.basename(tmp)}/#b/#'", shell=True, capture_output=True, text=True)
    open(f"/verif/mutants/{name}.patch", "w").write(r.stdout)
    print(r.stdout)
finally:
    shutil.rmtree(tmp, ignore_errors=True); shutil.rmtree(tmp + ".orig", ignore_errors=True)
