#!/venv/bin/python
"""ingest_seeded.py <id> <round> <srcdir> [--props C06,C09,C10,C18]
Takes a sub-agent's deliverables (<srcdir>/patch.diff, demo.py, notes.json), confirms them through
tools/mut_eval.py (150 tests pass with the change; demo exits 0 unchanged / 1 patched; which quick checks
report it) and, if confirmed, files them as /verif/seeded/<id>/{patch.diff, demo.py, meta.json}."""
import json, os, shutil, subprocess, sys

VERIF = os.path.dirname(os.path.dirname(os.path.abspath(__file__)))


def main():
    sid, rnd, src = sys.argv[1], int(sys.argv[2]), sys.argv[3]
    props = "C06,C09,C10,C18"
    if "--props" in sys.argv:
        props = sys.argv[sys.argv.index("--props") + 1]
    notes = json.load(open(os.path.join(src, "notes.json")))
    r = subprocess.run([os.path.join(VERIF, "tools/mut_eval.py"), os.path.join(src, "patch.diff"),
                        "--demo", os.path.join(src, "demo.py"), "--props", props],
                       capture_output=True, text=True)
    print(r.stdout[-3000:], r.stderr[-1000:])
    res = json.loads(r.stdout.strip().splitlines()[-1])
    ok = res.get("tests", "").startswith("150 passed") and res.get("demo_unchanged_rc") == 0 \
        and res.get("demo_patched_rc") == 1
    if not ok:
        print(f"NOT CONFIRMED {sid}: {res}")
        return 1
    dst = os.path.join(VERIF, "seeded", sid)
    os.makedirs(dst, exist_ok=True)
    shutil.copy(os.path.join(src, "patch.diff"), dst)
    shutil.copy(os.path.join(src, "demo.py"), dst)
    meta = {
        "id": sid, "round": rnd, "property": sid[:3],
        "summary": notes.get("summary"), "needs": notes.get("needs"), "files": notes.get("files"),
        "origin": "written by a fresh sub-agent that was given only the property record, a one-sentence "
                  "suggested angle derived from the property's anchors, and its own scratch worktree of /repo "
                  "(nothing from /verif)",
        "confirmed": {"tests": res["tests"], "demo_unchanged_rc": 0, "demo_patched_rc": 1,
                      "how": f"tools/ingest_seeded.py {sid} {rnd} <agent output dir> (tools/mut_eval.py on a scratch copy)"},
        "caught_by_quick_checks": [p for p, rc in res["checks"].items() if rc == 1],
        "quick_check_rcs_at_ingest": res["checks"],
    }
    json.dump(meta, open(os.path.join(dst, "meta.json"), "w"), indent=1)
    print(f"FILED {sid}: caught by {meta['caught_by_quick_checks']}")
    return 0


if __name__ == "__main__":
    sys.exit(main())
