#!/venv/bin/python
"""margins.py [name-filter...]: for every seeded / catalogued patch, run the OWNING quick check under
several VERIF_SEEDs and report whether it is killed under each (robustness of detection across seeds).
Writes /verif/evidence/selftest_margins.json."""
import glob, json, os, re, shutil, subprocess, sys, tempfile, time
VERIF = os.path.dirname(os.path.dirname(os.path.abspath(__file__)))
SEEDS = [1, 2, 3]

def sh(cmd, timeout=3600):
    return subprocess.run(cmd, shell=True, capture_output=True, text=True, timeout=timeout)

items = []
for p in sorted(glob.glob(os.path.join(VERIF, "mutants", "*.patch"))):
    items.append((p, os.path.basename(p)[:3].upper()))
for d in sorted(glob.glob(os.path.join(VERIF, "seeded", "*"))):
    if os.path.exists(d + "/patch.diff"):
        items.append((d + "/patch.diff", json.load(open(d + "/meta.json"))["property"]))
flt = [a for a in sys.argv[1:] if not a.startswith("--")]
if flt:
    items = [it for it in items if any(f in it[0] for f in flt)]
out = []
for patch, prop in items:
    tmp = tempfile.mkdtemp(prefix="mutx_", dir="/tmp")
    try:
        sh(f"git -C /repo archive HEAD | tar -x -C {tmp}")
        sh(f"cd {tmp} && patch -p1 -s < {patch}")
        row = {"patch": os.path.relpath(patch, VERIF), "property": prop, "seeds": {}}
        for seed in SEEDS:
            t0 = time.time()
            r = sh(f"cd {VERIF} && VERIF_SEED={seed} VERIF_REPO={tmp} VERIF_SHRINK_S=5 ./check {prop} --tier quick --no-evidence")
            m = re.search(r"violation[^\n]*run=(\S+)", r.stdout)
            row["seeds"][str(seed)] = {"rc": r.returncode, "first_run": m.group(1) if m else None, "wall_s": round(time.time() - t0, 1)}
        out.append(row)
        print(f"{row['patch']:45s} {prop} " + " ".join(f"seed{s}:rc={v['rc']}@{v['first_run']}" for s, v in row["seeds"].items()), flush=True)
    finally:
        shutil.rmtree(tmp, ignore_errors=True)
json.dump(out, open(os.path.join(VERIF, "evidence", "selftest_margins.json"), "w"), indent=1)
missed = [(r["patch"], s) for r in out for s, v in r["seeds"].items() if v["rc"] != 1]
print("missed (patch, seed):", missed)
