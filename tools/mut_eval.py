#!/venv/bin/python
"""mut_eval.py <patch.diff> [--props C09,C10] [--runs N] [--demo demo.py]
Applies a patch to a scratch copy of /repo (outside /repo and /verif), confirms that the 150 tests
still pass, runs the quick checks against the copy (VERIF_REPO) and reports which checks fire.
The scratch copy is removed afterwards.  Never touches /repo."""
import argparse, json, os, shutil, subprocess, sys, tempfile, time

VERIF = os.path.dirname(os.path.dirname(os.path.abspath(__file__)))

def sh(cmd, **kw):
    return subprocess.run(cmd, shell=True, capture_output=True, text=True, **kw)

def main():
    ap = argparse.ArgumentParser()
    ap.add_argument("patch")
    ap.add_argument("--props", default="C06,C09,C10,C18")
    ap.add_argument("--tier", default="quick")
    ap.add_argument("--runs", type=int)
    ap.add_argument("--demo")
    ap.add_argument("--keep", action="store_true")
    a = ap.parse_args()
    tmp = tempfile.mkdtemp(prefix="mutx_", dir="/tmp")
    res = {"patch": a.patch}
    try:
        sh(f"git -C /repo archive HEAD | tar -x -C {tmp}")
        r = sh(f"cd {tmp} && patch -p1 < {os.path.abspath(a.patch)}")
        if r.returncode != 0:
            print("patch failed:", r.stdout, r.stderr); return 2
        t = sh(f"cd {tmp} && PYTHONPATH={tmp}/src:{tmp}/test_helpers /venv/bin/python -m pytest -q -p no:cacheprovider -x 2>&1 | tail -3")
        res["tests"] = t.stdout.strip().splitlines()[-1] if t.stdout.strip() else t.stderr
        print("tests:", res["tests"])
        if a.demo:
            d0 = sh(f"PYTHONPATH=/repo/src /venv/bin/python {a.demo}")
            d1 = sh(f"PYTHONPATH={tmp}/src /venv/bin/python {a.demo}")
            res["demo_unchanged_rc"], res["demo_patched_rc"] = d0.returncode, d1.returncode
            print(f"demo: unchanged rc={d0.returncode} patched rc={d1.returncode}")
        res["checks"] = {}
        for prop in a.props.split(","):
            t0 = time.time()
            cmd = f"cd {VERIF} && VERIF_REPO={tmp} ./check {prop} --tier {a.tier} --no-evidence" + (f" --runs {a.runs}" if a.runs else "")
            r = sh(cmd)
            lines = [l for l in r.stdout.splitlines() if l.startswith(("VIOLATION", "violation", "  ", "HARNESS"))]
            res["checks"][prop] = {"rc": r.returncode, "wall": round(time.time() - t0, 1), "lines": lines[:8]}
            print(f"{prop}: rc={r.returncode} wall={time.time()-t0:.1f}s")
            for l in lines[:6]:
                print("    " + l[:300])
            if r.returncode == 2:
                print(r.stdout[-1500:], r.stderr[-1500:])
    finally:
        if not a.keep:
            shutil.rmtree(tmp, ignore_errors=True)
    print(json.dumps({k: (v if k != "checks" else {p: c["rc"] for p, c in v.items()}) for k, v in res.items()}))
    return 0

if __name__ == "__main__":
    sys.exit(main())
